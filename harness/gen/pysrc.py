"""Source translator (DESIGN 5.1b): regenerates Gallina definitions from the CURRENT text of netaddr/ip/__init__.py
(and of the other source files listed in UNITS, see "Third round" below; and the three constants width/version/max_int of netaddr/strategy/ipv4.py, ipv6.py) on every run -> coq/Gen/pysrc_gen.v
(methods) and coq/Gen/pysrc_span_gen.v, pysrc_partition_gen.v, pysrc_iprange_gen.v (module-level functions, one file per
property so that a definition Coq rejects cannot take unrelated obligations down).  coq/Proofs/GenOk_Src_*.v prove every
generated definition equal to the hand-written model function of coq/Model/*.v, so a source edit that changes a translated
function changes the generated term and the equality stops compiling.

Pure `ast` on the file text (netaddr is never imported), deterministic, ASCII output, FAIL CLOSED: any node outside the
subset below raises Untranslatable("<file>:<line>: <why>").  A function that cannot be translated (or that depends on one)
is emitted as a constant whose one-constructor type is named after that message, so exactly the lemmas (and the `Cxx_source_tie`
obligations) that mention it stop compiling, with the message in the Coq error; a missing/unparsable source file raises out of generate().

Subset.  Statements: docstring, pass, `x = e`, `x op= e`, `a, b, c = e`, `self._value = e` / `self._prefixlen = e` (recorded as
the new state), if/elif/else, return, raise Name(...) (message ignored), `while`, `for x in <list or iterator>`, break, continue,
`l.append(e)`, `x = l.pop()`, `x._prefixlen = e` on an owned local object, and the one try form `try: x = [IPNetwork(]_iter_next(it)[)] ... except StopIteration: raise E`.
Expressions: int literals, + - * // % & | ^ << >> **, unary -, not/and/or, (chained) comparisons on ints, int(e), bool(e),
min/max of two ints, tuples, None, list literals, `a + b` on lists, `l[::-1]`, `t[k]` with a literal k on a tuple or on a list
literal that is never mutated, iter(l), the fixed attribute environment ATTRS, reads of translated properties / calls of
translated methods of self, of an IPNetwork-valued variable or of a refined operand, calls of translated module-level
functions, and the constructor calls IPAddress(e, ver) / self.__class__(e, ver) / klass(e, ver) -> (mk_addr ver e),
IPNetwork((e1, e2), version=ver) -> (mk_net ver e1 e2) (Model/SrcPrelude.v), IPNetwork(x) for an IPNetwork-valued x -> x.

Reading of the new constructs (all of it is trusted translator input, with the tables WHITELIST, FUNCS, FUEL below):
* Values.  A function parameter declared `net` is an already constructed IPNetwork object (Ip.net); `IPNetwork(x)` on it is the
  copy constructor with default flags = the identity on the model.  `list net` is a Python list/sequence of such objects.
  Lists are Coq lists: `l.append(x)` = l ++ [x], `l.pop()` = SrcPrelude.py_pop (IndexError on []), `l[::-1]` = rev l,
  `a + b` / `a += b` = a ++ b; a list may never be bound to a second name (no aliasing).  Python tuples of non-ints are Coq tuples.
* `while c: body` -> `Fixpoint <f>_loop<N> (fuel : nat) <variables read> <variables assigned> : outcome <variables read later>`,
  structural on fuel, `Raise OutOfFuel` at 0; `break` returns the current variables, the end of the body is the recursive
  call.  The fuel is NOT in the source: it comes from FUEL (a Python int expression evaluated at loop entry + a constant)
  and must be the hand model's.  `for x in xs: body` -> a structural Fixpoint on the list (pure when the body cannot raise).
  `return` inside a loop and nested loops are rejected.  Loops are numbered in source order within their function.
* `if` whose branches fall through and only assign locals is a join: `let/do (x, y) := (if c then .. else ..)`; any other `if`
  is translated with the rest of the block duplicated into both branches (as before).  A name bound in one branch only is
  unbound afterwards.
* `isinstance(other, C)` on a parameter declared `operand` (SrcPrelude.operand: OAddr / ONet / ORng / OOther) splits into the four
  kinds; inside each arm isinstance tests are decided from the class hierarchy of the parsed module (OAddr = IPAddress,
  ONet = IPNetwork, ORng = IPRange incl. IPGlob, OOther = no BaseIP) and attribute reads go to the constructor's fields.
  The final fallback `return <Class>(other) in self` (strings etc.) is OUT OF SCOPE: it becomes `Raise Unsupported` in the OOther arm.
* `x._prefixlen = e` / `x._value = e` on a LOCAL IPNetwork object is a record update `{| nver := nver x; ... |}` that bypasses
  the setter.  Accepted only if x is owned: every binding of x is a constructor result (mk_net, or a translated property all
  of whose results are mk_net calls) and every use of x is `x.<attribute>` (it is never stored, passed, returned or given a
  second name); checked syntactically over the whole function.  From then on a read of a translated property of x whose
  translation relied on the class invariant is preceded by the test 0 <= prefixlen <= width -> else `Raise Unsupported`.
* `2 ** e` with an exponent that depends on a parameter gets the guard `e < 0 -> Raise Unsupported` (Python would build a float).
Third round (other source files, table UNITS; one generated file per unit):
* netaddr/contrib/subnet_splitter.py -> coq/Gen/pysrc_splitter_gen.v.  The object state `self._subnets` (STATEVARS) is read and
  written like a local: it is a leading parameter `self_subnets`, a method that assigns it (also through `self.m(..)` or a mutator
  call on it) returns the new state -- alone if the method returns no value, else the pair (state, value).  A Python set is the
  Coq list of its elements (SrcPrelude: no duplicates under the element equality, insertion order standing for the unspecified
  iteration order): `s.remove(x)` = py_set_remove (KeyError), `set(l)` = py_set_of_list, `s.union(t)` = py_set_union, equality of
  IPNetwork elements = net_key_eqb (key() = version, first, last).  `sorted(xs, key=lambda x: <int>, reverse=True)` =
  py_sorted_desc (stable).  `not l` / `if l` on a list = py_nonempty.  `[y for x in xs for y in f(x)]` = py_flat_map_o.
  `for x in <expression>` evaluates the list once; loops may be nested; `return e` inside a loop that is not itself nested makes
  the loop's Fixpoint answer `inl e` (the function's result) | `inr <variables read afterwards>`.  Calls that are NOT translated
  become prelude symbols that are the callee's hand model (EXTERN: cidr_merge -> py_cidr_merge; list(x.subnet(p, count=c)) ->
  py_list_subnet, Model/SrcPreludeSplitter.v).  A parameter declared `optint` is None or an int (option Z) and may only be passed on.
* netaddr/ip/__init__.py, IPListMixin -> coq/Gen/pysrc_listlike_gen.v (a second unit over the same file; everything it does not list
  is the first unit's).  `"method:variant"` in a unit's entry is a specialisation of the method by the declared parameter types:
  `hasattr(<parameter>, '<name>')` is decided by the declared type (HASATTR), so __getitem__ is translated once for an int index and
  once for a slice index (a slice = the triple of its components, each None or an int).  `try: body / except E1: raise E2(..)` =
  `do <variables assigned in body> <- py_except E1 E2 (body); rest` (body: assignments, if, raise only).  `index.indices(n)` =
  py_slice_indices, `len(_iter_range(a, b, c))` = py_range_len, `_sys_maxint` = ssize_max (Model/PySlice.v; compat_ok() checks how
  netaddr/compat.py binds the two names), `iter([])` = ItEmpty and the not yet started generator `iter_iprange(a, b, step)` =
  ItIprange (Model/ListLike.v).
* netaddr/strategy/__init__.py -> pysrc_strategy_gen.v: a word sequence is a list of ints.  `len(l)` = Z.of_nat (length l);
  `for _ in range(n)` = a Fixpoint on the nat Z.to_nat n (the loop variable must not be read); `for i, x in enumerate(l)` carries
  the counter i = 0, 1, ..; `reversed(l)` = rev l where it is consumed at once (for / enumerate / tuple); `tuple(l)` = l.
  Text (parameters declared `str`, string literals) is a Coq string: `a == b` / `!=` = String.eqb, `len(s)` = str_len,
  `s.replace(a, b)` = replace, `s.startswith(p)` = starts_with (Base/PyStr.v), `s[k:]` = py_str_from k, `int(s, 2)` = py_int_o
  (ValueError), `bin(e)` = py_bin, `CHARSET.issuperset(s)` for a module-level frozenset([..]) of characters = py_chars_in
  (Model/SrcPreludeStr.v); `_is_str(x)` is decided by the type (compat binds it to `lambda x: isinstance(x, ..)`);
  `try: <if/return/raise, no assignment> / except E: pass` = py_except_pass E (body answering inl r | inr tt);
  `try: .. / except NameError: ..` around code that reads only locals and known builtins is its body (the handler is dead).
* netaddr/strategy/eui48.py, eui64.py -> pysrc_eui48_gen.v, pysrc_eui64_gen.v: a dialect parameter (`optdialect`) is None or the
  pair (word_size, num_words) of a dialect class; `if dialect is None: dialect = DEFAULT` binds the pair; DEFAULT is a generated
  constant read from the class bodies (int constant expressions, evaluated per class body, looked up through the bases).  A function
  imported under an alias from another unit's module (`from netaddr.strategy import int_to_words as _int_to_words`) is that unit's
  translated definition.
* netaddr/eui/__init__.py -> pysrc_eui_gen.v: an EUI receiver is (ver, v) = (_module.version, _value); `self._module == _eui48` /
  `is` = `ver =? src_eui48_version` (the modules are told apart by their regenerated `version` constants); `name = property(_getter,
  ..)` is read through `_getter`; `self.__class__(e, version=k)` = mk_eui k e (Model/SrcPreludeEui.v = eui_init on an int);
  `OUI(e)` / `IAB(e)` are represented by the integer e (CTOR_AS_ARG: the registry lookup of the constructor is not translated);
  `e in C.ATTR` for a class-level tuple of int literals = existsb (Z.eqb e) [..]; `x._value op= e` on an owned local EUI object
  is a record update (and `return x` is allowed for an owned object); `int(x)` = the translated __int__.
* netaddr/ip/__init__.py, classification -> pysrc_classify_gen.v (needs Gen/classify_gen.v): the block tables are module-level
  names whose VALUES harness/gen/classify.py regenerates (UNIT_TABLES: one row (kind, version, a, b) or a list of rows);
  `self in T` = src_contains_row T <receiver as operand> (UNIT_PREAMBLE: the translated __contains__ of the row's class);
  `if self.m():` / `not self.m()` for a method that returns a bool on some paths and None on the others = py_truthy.
Conventions (DESIGN 3): Python ints are Z; a shift count that depends on a parameter gets CPython's `ValueError: negative shift
count` guard, a count built from object state and literals only is taken as non-negative (class invariant 0 <= prefixlen <=
width); method parameters are ints unless declared otherwise in WHITELIST; every parameter of a module-level function is declared in FUNCS.
SRCA (netaddr/ip/sets.py -> coq/Gen/pysrc_sets*_gen.v, units SETS_UNITS; code in the block `SRCA` after class Translator, active for
these units only):
* An IPSet object is its only attribute `_cidrs`; that dict (IPNetwork keys, every value True) is the insertion-ordered list of its
  keys: types `ipset` / `dict`, both `list net`; `x._cidrs` of an IPSet x is x; the state of a method is the leading parameter
  `self_cidrs` (STATEVARS).  A parameter declared `ipset` is an already constructed IPSet (`hasattr(other, '_cidrs')` is true; a
  `try: <reads of _cidrs only> / except AttributeError:` is its body).  Dict operations are the symbols py_dict_* of
  Model/SrcPreludeSets.v (= Sets.dmem / dset / ddel / dfromkeys / dupdate / dict_eqb): `k in d`, `d[k] = True`, `del d[k]` (KeyError),
  `d.update(e)`, `dict.fromkeys(l, True)`, `d == e`, `{}`, `bool(d)`, `_dict_keys(d)` / `for k in d` (the keys, insertion order; the
  body may change d only directly before `return` / `break`).  sets_prepare() rewrites these statements to assignments
  `d = __sets_dict_*(d, ..)` before translation (the names __sets_* are the translator's, not Python's).
* `sorted(d)` = py_sorted_nets (Sets.sorted: IPNetwork ordering by sort_key(), stable); on IPNetwork objects `a == b` = net_key_eqb
  (key()), `a < b` = py_net_ltb (sort_key()), `a in b` = the translated IPNetwork.__contains__ on the operand ONet a;
  `x in <IPSet>` = the translated IPSet.__contains__; `not <IPSet>` = its __nonzero__; the truth value of an int is `!= 0`.
* `l[i]` on a list = py_index (IndexError; negative i from the end), `l[k:]` = py_list_from k, `n[i]` on an IPNetwork = the
  translated IPListMixin.__getitem__:int, `sum([<int> for x in xs])` = py_sum (map ..), `IPSet()` / `self.__class__()` = the
  translated __init__ for iterable None on a new object (empty state), `IPRange(a, b)` on two IPAddress objects = py_iprange (the hand model of that constructor), `cidr_merge(l)` = py_cidr_merge,
  `iprange_to_cidrs(a, b)` on two IPAddress objects = the translated function on py_net_of_addr a, b (its own IPNetwork(start)).
* `x = IPNetwork(<name>)` is a private copy: `x._prefixlen -= 1` is a record update as long as x is only read as x.<attr> or as the
  left operand of `in`.  `return <comparison> and <call>` evaluates the call only if the comparison holds.  `assert` is dropped.
  `for a, b in e` unpacks a fresh loop variable.  `x.m(..)` as a statement on a local IPSet x, for a method m that assigns the
  state, is `x = x.m(..)`.
* Index-driven traversal needs nothing new: `l[i]` = py_index, `i += 1`, `while i < n` with the fuel of FUEL.  An out-parameter
  (SETS_OUTPARAM: `ranges` of _subtract, a list the function appends to and the caller reads afterwards): the function returns
  (that list, its value) and the call `x = f(.., l)` is `l, x = f(.., l)`.  A generator function (`yield`) whose callers consume it
  at once in a `for` is the function that returns the list of what it yields (sets_yield).  Tuples of values are Coq tuples, an
  IPAddress component is its pair (version, value); `[e for x in xs]` with a pure e = map.
* Variants by argument type (`add:net`, `add:iprange`, `update:ipset/net/iprange/list`, `__init__:none/net/iprange/ipset/list`,
  `remove:net/iprange`): `isinstance(<name>, C)` and `<parameter> is None` are decided by the declared type (`ipset` IPSet, `net`
  IPNetwork, `iprange` IPRange = (version, start, end), `list net`, `none`; also for the loop variable of a `for` over a `list net`
  parameter); a decided branch that ends with return / raise is not followed by the rest of the block.  A call `x.m(a)` /
  `self.m(a)` of a method translated in variants picks the variant by the type of `a`; missing trailing arguments take their int
  defaults.  `r[i]` on an `iprange` = the translated IPListMixin.__getitem__:int for IPRange.
* _compact_single_network changes its parameter in place (SETS_MUTABLE_PARAMS): it is translated on a local copy; accepted only if
  every read of the parameter is x.<attr>, `x in d`, `x == y`, or the key of `d[x] = True` / `del d[x]`, if `del d[x]` precedes the
  attribute assignments in their block (the object is in no dict when it changes), and if every caller does not read its argument
  after the call.  `x.prefixlen = e` goes through the translated setter _set_prefixlen, `x._value = e` is a record update;
  `x.previous()` / `x.next()` = py_net_previous / py_net_next (hand models), `x.supernet()` = the translated method.
  `X = None / for v in d: if c: X = ..; break / if X is not None: body` at the end of a function is
  `for v in d: if c: X = ..; body; return` (inline_search_loop).  `{k: True}` = py_dict_set [] k, `d.popitem()[0]` in a return =
  py_dict_popitem.  The auxiliary names h<N> inside and after loop N of a sets unit start at 1000 * N (a loop after an `if` with
  exits is translated once per branch and both texts must agree).
SRCB (text functions: netaddr/ip/glob.py -> pysrc_glob_gen.v; class FnB, a subclass of Fn used only for the units of SRCB_UNITS,
so the text generated for every other unit is untouched; prelude Model/SrcPreludeGlob.v):
* Values: `addr` = an IPAddress object (version, value); `rng` = an IPRange object (version, start, end); `char` = one character;
  lists of str.  `IPAddress(x)` of an `addr` x = x (copy constructor); IPAddress(s) / IPRange(s1, s2) / str(ip) for text are NOT
  translated: they are the hand-model symbols py_ipaddress_of_str / py_iprange_of_strs / py_addr_str; an `addr` passed to an imported
  function of SRCB_ADDR_AS_NET (iprange_to_cidrs: it applies IPNetwork() to its arguments) is py_net_of_addr (the /width network);
  `x.version` = the translated IPAddress.version; `cidr[k]` (literal k, cidr an IPNetwork) = the translated IPNetwork.__getitem__
  of the listlike unit (SRCB_IN_UNIT); an IPAddress result of a translated definition is an `addr`.
* Text: `s.split('c')` = split, `s.split('c', 1)` = split1, `'sep'.join(l)` = join, `'c' in s` / `c in s` for a character = contains_char,
  `'..%s..%d..' % (a, ..)` = String.append of the pieces with fmt_d for ints, str(n) = fmt_d n, int(s) = py_int_o 10 (ValueError),
  `s1 + s2` = String.append, `n * 'c'` = py_str_times, truth of a str = py_str_nonempty; `any(<bool> for c in s)` = existsb over
  chars s; `s[0] == 'c'` = py_str_head_is, accepted only after an operand `not s` of the same `or` (s is non-empty there);
  `x is True` for a bool x = x.
* Lists: `l[i]` for an int expression i = py_index (negative indices, IndexError); `a, b = <list>` = py_unpack2 (ValueError);
  `[e for x in xs]` = map, or py_map_o when e can raise (in order, first exception wins); `f(*g(x))` for a tuple-valued g binds the
  components; `for i in range(n)` / `range(a, b)` / `_iter_range(a, b)` whose variable is read = a loop over py_zrange a b.
* `if A and B:` / `if A or B:` whose later operand can raise = the nested ifs Python evaluates (`if A: if B: X else: Y else: Y`).
* `def g(..)` directly in the body of f, reading no local of f: the separate definition src_f_g (table entry "f.g"); calls below it.
* `try: body / except E | (E1, ..): handler` (any handler other than the single `raise` / `pass` the base class reads) =
  py_try [E..] body handler: both answer `inl <returned value>` | `inr <variables assigned and read later>` (no sum when neither
  returns); the handler starts from the variables as they were at `try` -- a variable the body assigns is UNBOUND in the handler
  unless every statement of the body from its first assignment on cannot raise (`l.append(<name>)`, `x = <name or literal>`);
  break / continue inside are rejected.
* The IPGlob class (STATEVARS: _start, _end `addr`, _glob `optstr` = a slot that holds a str or is unset): `self.p = e` for a class-level
  `p = property(getter, setter, ..)` is `self.<setter>(e)`, a read of `self.p` is `self.<getter>()`; a read of an `optstr` slot is
  py_attr_get (AttributeError when unset), an assignment to it stores Some; `super(C, self).m(..)` is the hand-model symbol of
  SRCB_SUPER (py_iprange_init / py_iprange_getstate / py_iprange_setstate; it assigns the state attributes listed there);
  `__init__` / `__setstate__` (SRCB_CONSTRUCTORS) take no incoming state: optstr slots start as None, the other attributes are
  unbound until assigned, the result is the state built.  As for every STATEVARS class a method that raises says nothing about the
  state it leaves behind.
SRCB, netaddr/ip/nmap.py -> pysrc_nmap_gen.v (prelude Model/SrcPreludeNmap.v):
* A Python set of ints is the duplicate-free list of its elements in insertion order (as for the splitter unit): `set()` = [],
  `s.add(x)` = py_set_add Z.eqb, `sorted(s)` = py_sorted_asc (ascending insertion sort).
* `def f(*xs)` with xs declared `list ..` takes the tuple of its arguments as one list parameter.
* A GENERATOR function (its body contains `yield e` statements; `yield from`, yield as an expression, `return` are rejected) is the
  list of the OUTCOMES of its yields in order (`yielded`; type `oaddr` = outcome of an IPAddress object): `yield e` appends the outcome
  of e (Ok v, or the Raise of a failing e); `for x in g: yield x` appends all outcomes of g (g a generator call, or an IPNetwork:
  py_iter_net, the hand model of IPListMixin.__iter__); the first Raise in the list is the exception that ends the generator
  (Nmap.gen_of_outcomes reads the list that way).  Calling a generator function never raises: an exception of its body before the
  first yield is the one-element list [Raise e] (py_gen_body).  Fail closed: no raising construct may follow a yield on any path,
  and a loop that yields must be effect-free (otherwise the items yielded so far would be lost).  `_iter_next(g)` on a generator
  made in that very expression = py_gen_next (its first outcome; StopIteration = Unsupported).
* A loop variable that is mentioned after its loop but is dead there (FnB.read_first: always written before it is read again) is
  renamed inside the loop (x -> x_for); `a, _ = <list>` ignores the second component.
* The parsers reached with TEXT arguments are table SRCB_CTOR: for nmap.py IPAddress(text) and inet_pton(AF_INET6) inside
  IPNetwork(text) are `Variable`s of a Section of the generated file (the same two platform parameters as Model/Nmap.v).
SRCB, netaddr/ip/rfc1924.py -> pysrc_rfc1924_gen.v (prelude Model/SrcPreludeB85.v):
* `ord(c)` for a character = code c; `chr(i)` = py_chr_o (a one-character str; Unsupported outside 0..255); `range(..)` consumed as a
  list = py_zrange; `list(s)` = py_str_list; `n * 'c'` = py_str_times; `s1 + s2` = String.append.
* BASE_85 / BASE_85_DICT are module-level tables whose VALUES harness/gen/codec.py regenerates (UNIT_TABLES: BASE_85 = the list of
  its one-character strings; SRCB_DICTS: `BASE_85_DICT[k]` = py_b85_dict_get, KeyError).
* `IPAddress(n)` for an int n (version inferred) = py_ipaddress_of_int (hand model Ip.addr_of_int); `str(ip)` of the IPv6 result is
  the Section variable addr_str (the formatter is property C01).  FUEL of the `while int_val > 0` loop: 21 (the model's 20 + 1).
* A `for` variable that the body assigns (`num = BASE_85_DICT[num]`) runs as x_for with `x = x_for` first in the body.
SRCD (constructors, pickled state, the network parser of netaddr/ip/__init__.py -> coq/Gen/pysrc_ctor_gen.v, pysrc_parse_gen.v): the
units of CTOR_UNITS are read by the subclass CtorFn of Fn in harness/gen/pysrc_ctor.py, whose docstring describes the added
constructs (constructor state as locals with `super().__init__()` inlined, strategy modules represented by their version, tests
decided by the declared type of the specialisation, `x is None` on optional values, general `try / except / else` as a match on the
outcome, unrolled `for` over a literal tuple, the socket back-end as a leading parameter `be`).  Hooks here: Fn.prepare,
Fn.initial_env, fn_class, UNIT_SEES / BY_OUT (an earlier unit over the same file whose definitions a unit may call).

SRCE (class FnE, used only by the units of SRCE_UNITS -- the non-constructor functions of netaddr/ip/__init__.py; everything FnE does
not recognise goes to the base class unchanged; trusted input: SRCE_UNITS, SRCE_TYPES, SRCE_LOCALS, MODULE_FUNCS, the FUEL entry of
cidr_merge, the preludes Model/SrcPreludeSRCE.v / SrcPreludeMerge.v / SrcPreludeMatch.v / SrcPreludeCmp.v / SrcPreludeViews.v):
* pysrc_merge_gen.v (C05: IPRange.cidrs, cidr_merge).  A parameter declared `list mitem` is a list of IPNetwork or IPRange objects
  (Model/Merge.v mitem = MNet net | MRange version start end; `IPNetwork(ip)` of anything else is the constructors' business):
  `isinstance(x, C)` / `isinstance(x, (C, D))` on such an object is decided where the declared type decides it and is a `match` on
  the constructor otherwise (inside the arms x is an IPNetwork-valued variable / a refined IPRange operand); `x.attr` for a property
  both classes have is that match over the two translated properties.  A tuple (int, int, int) or (int, int, int, object) is a
  Merge.rtuple = Z * Z * Z * option mitem: `t[0]`, `t[1]`, `t[2]` are the projections, `if len(t) == 4:` is `match snd t with
  Some o => .. | None => ..` and `t[3]` is o inside its first arm.  `l[e]` for a computed int e = py_index (IndexError; a negative
  index counts from the end), `l[e] = x` = py_setitem (value first, then index), `del l[e]` = py_delitem, `l.extend(m)` = l ++ m,
  `l.sort()` on range tuples = py_sort_ranges (NOT translated: the hand model Merge.rt_sort).  `a and b` / `a or b` whose later
  operands can raise = `if a then (do ..; Ok b) else Ok false` (short circuit, in `outcome`).  An IPAddress object passed where the
  callee declares an IPNetwork = py_net_of_addr (IPNetwork(<IPAddress>): its host network).  `x.m(..)` on an IPNetwork-valued
  variable or a refined operand = the translated method m of its class.
* generators (pysrc_subnet_gen.v C11: IPNetwork.subnet; pysrc_iter_gen.v C10: iter_iprange).  `def g(..): <prologue>; while c: <body>;
  yield e` (one yield, the last statement of the loop, which is the last statement of the function; no loop / continue / return /
  try inside) is listed twice, as "g:start" and "g:next", and becomes two definitions: src_g_start = the prologue, returning the
  tuple of the locals the loop reads, in the order of their first read (`Ok None` for a bare `return`: the generator yields
  nothing); src_g_next <state> = one resumption: `if c then <body>; Ok (Some (e, <state>)) else Ok None`, a `break` = `Ok None`, an
  exception of the body = Raise.  SrcPreludeSRCE.py_gen_take is list(islice(g, n)) of the two pieces.  State variables are
  ints, bools, IPNetwork objects or address texts.  A parameter declared `obj` is an IPAddress object (version, value);
  `IPAddress(x)` of such an x is a copy (the same pair); `x.version`, `x._value`, `int(x)` read it.
* pysrc_subnet_gen.v also: `self._module.int_to_str(e)` is kept as the integer e it is the text of (type ipstr);
  `self.__class__('%s/%d' % (a, p), version)` for an IPAddress object or such a text a = py_net_of_cidr_text (NOT translated: the
  hand model Subnet.net_of_cidr_str of the text round trip; for an IPAddress a of another family: Raise Unsupported); on that new
  object, which nobody else can see, `x.value += e` / `x.prefixlen = e` call the translated setter of the property
  (`name = property(lambda self: self._f, <setter>)`) and `x += n` / `x -= n` the translated __iadd__ / __isub__ (record updates);
  `if count is None: count = <int>` for an `optint` parameter; `a // k ** e` (a positive literal k: the divisor is never 0).
* pysrc_iter_gen.v / pysrc_match_gen.v: "m:mixin" = the definition of IPListMixin itself for a receiver class that overrides m.
* pysrc_match_gen.v (C04: the three matching functions): `[IPNetwork(x) for x in xs]` for IPNetwork-valued xs = xs (copies);
  `sorted(l)` for IPNetwork objects = py_sorted_nets (NOT translated: the hand model Contains.py_sorted over BaseIP.__lt__);
  `x in y` / `x not in y` for an IPNetwork-valued y = its translated __contains__ on the operand (OAddr .. / ONet ..);
  an IPAddress object read inside a loop is carried as its pair; a local declared in SRCE_LOCALS as `optnet` starts as None and is
  assigned IPNetwork objects (option net): `x is not None and <e>` = `match x with Some h => <e with x := h> | None => Ok false end`.
* pysrc_cmp_gen.v (C12: BaseIP.__eq__ .. __ge__, __hash__, IPRange.sort_key): `try: return <e> / except (AttributeError, ..): return
  NotImplemented` where <e> reads one `operand` parameter = a match on the operand kind whose three BaseIP arms are <e> -- accepted
  only if <e> is translated there without anything that can raise, so that the handler is dead -- and whose OOther arm is `Raise
  Unsupported` (the method answers NotImplemented and Python tries the reflected operation: out of scope).  `t1 <op> t2` for two
  tuples of ints (results of key() / sort_key()) = py_tuple_<op> (Order.tuple_cmp); `num_bits(e)` imported from netaddr.core =
  py_num_bits (Order.num_bits; core_num_bits_ok() checks that core.py still says `return int_val.bit_length()`); `hash(t)` = `hash_ t`
  where hash_ : list Z -> Z becomes a PARAMETER of the generated definition (CPython's tuple hash is not modelled).
* pysrc_ipviews_gen.v (C15 / C14: IPAddress.bits bin words packed reverse_dns __bytes__ __hex__): `self._module.<f>(..)` for the
  functions of MODULE_FUNCS = the symbol py_mod_<f> version .. (NOT translated: the hand model of the strategy module's function,
  Model/Codec.v, by version); `v.to_bytes(n, 'big')` = py_int_to_bytes; `'<text>%x' % e` = py_fmt_hex; a parameter declared `optstr`
  (None or text) may only be passed on.
Not translated: iter_unique_ips (nested `for` with `yield`, and no hand model function), the abstract BaseIP.key / sort_key
(`return NotImplemented`: no model counterpart), IPAddress.__oct__ (no model), the alias __bool__ = __nonzero__.
SRCC (units SRCC_UNITS: netaddr/strategy/ipv4.py -> pysrc_ipv4_gen.v, ipv6.py -> pysrc_ipv6_gen.v, netaddr/fbsocket.py ->
pysrc_fbsocket_gen.v, and a second unit over netaddr/strategy/__init__.py -> pysrc_strategy_bits_gen.v; all of it in the two blocks
marked SRCC, which wrap the methods above and leave them untouched for every other unit).  Added readings, for these units only:
* a module-level name bound exactly once, at top level, by `name = <int constant expression>` or `name = '<text>'` is a generated
  constant src_<prefix><name> holding its VALUE (width / version / max_int of ipv4.py / ipv6.py: the constants of pysrc_gen.v);
  `globals()['name']` is that constant even where a parameter shadows the name; `if x is None: x = e` for a parameter declared
  optint / optstr = py_opt_default x e.  A call of a translated function may omit trailing parameters (the callee's constant
  defaults are filled in) and hand an int / text to an optint / optstr parameter (Some ..).  A function listed by another unit over
  the same file (or imported from such a file) is found in whichever unit lists it.
* packed byte strings (`bytes`) are lists of byte values: struct.pack / unpack with a LITERAL format of unsigned big-endian (or
  one-byte) fields = py_struct_pack / py_struct_unpack <field sizes> (Codec.struct_pack / struct_unpack; `*l` hands over a list);
  `t[k]` with a literal k >= 0 on a list = py_seq_item (IndexError), `l[e]` = py_list_item (Python's negative index rule);
  `return (a, b, c, d)` of ints = the list [a; b; c; d] (callers read the result as a word sequence).
* text: '' and other literals, `a + b`, `s * n`, `a or b`, `a in b` (substring), `s[lo:hi]` / `l[lo:hi]` with any int bounds
  (py_str_slice / py_slice: Python's clamping), `'<fmt>' % e` with conversions %d %x %.4x %s (fmt_d, fmt_x, py_fmt_x4; for a
  sequence-valued e the length is tested: TypeError), `sep.join(l)`, `s.split('<literal>')`, `list(s)`, `int(s)` / `int(s, 16)`
  (py_int_base_o: ValueError), `[e for x in xs]` = map / py_map_o (e may raise; left to right), `l.reverse()` / `l.extend(m)` /
  `l.insert(0, x)` as rebinding of l, the truth value of an int / of text, `x = E('..')` for an exception class E followed later
  by `raise x` (only the class is kept), a `for` target that the body assigns again (renamed: `for x__item in ..: x = x__item`),
  BYTES_TO_BITS = the table regenerated into Gen/codec_gen.v (UNIT_TABLES), a `while` loop's fuel from FUEL as before.
* the back-end switch.  ipv4.py / ipv6.py bind `_inet_aton`, `_inet_pton`, `_inet_ntop` (and AF_INET / AF_INET6) at import time, by
  imports that sit under `if _sys.platform ..` / `try .. except`: from `socket` / `_socket` on the platform path, from
  netaddr.fbsocket on the fallback path.  The translator checks that EVERY binding of such a name in the module is an import of
  the same function from one of these modules (SRCC_SOCKET, srcc_import_only) and reads a call by function and family:
  `_inet_aton(s)` = py_inet_aton s, `_inet_pton(AF_INET, s)` = py_inet_pton4 be s, `_inet_pton(AF_INET6, s)` = py_inet_pton6 be s,
  `_inet_ntop(AF_INET6, p)` = py_inet_ntop6 be p (Model/SrcPreludeText.v: Platform = the named oracles Std4 / Std6 of
  Model/IpText.v, Fallback = the hand model of Model/FbSocket.v, as in Model/AddrText.v; inet_aton is the platform function on
  both paths).  Which path is taken is NOT decided by the translator: a definition that makes such a call (or calls one that does)
  takes the back-end as its first parameter `(be : py_backend)`, exactly like the hand model.  A socket call made as a
  statement is evaluated for its exception only.  INET_PTON / ZEROFILL are read from netaddr/core.py (`X = NAME = <int>`).
* try forms (outside loops): `try: body / except Exception: H` and the bare `except:` catch every Python exception class of
  the model but let the modelling devices OutOfFuel / Unsupported through: H = `raise E(..)` with a body that returns on every
  path -> py_except_all E (body) is the function's result; H = `raise E(..)` with a body that only assigns -> do <assigned> <-
  py_except_all E (body); H = `return <literal>` / assignments of literals to names bound before -> py_except_value <H's values>
  (body) (a name the body assigns must not be read afterwards unless H assigns it too).  `try: .. / except E1: raise E2` may now
  contain loops (no return / break / continue in it).
* further: `a and b` / `a or b` whose second operand can raise -> `if a then <b> else Ok false` (resp. true) in outcome;
  `a, b = <list>` -> ValueError unless the list has that many items; `x = g(l.pop())` -> the pop first (`l__popped`);
  `'::' in s` / `s.split('::')` = the hand models py_contains_dc / py_split_dc of Model/IpText.v (validated against CPython by
  the c01_split_dc command), `'<one char>' in s` = contains_char, other `a in b` on text = the substring test py_str_in;
  '<ASCII literal>'.encode() = its byte values, `b * n` on bytes, `_bytes_join(l)` = concat, `_is_str(x)` decided by the type
  (also for bytes), `isinstance(<text>, _str_type)` true (compat binds _str_type = str); a comprehension variable that is bound
  elsewhere in the function is renamed inside the comprehension (its own scope in Python 3), `for` targets that several loops
  share are renamed (`x__item`, `x__item2`, ..); `[]` is written `@nil <type>` once its element type is known.
* an IPv6 dialect class (parameter declared `optcls6`, or the class name as an argument) is the pair (word_fmt, compact) of its
  class attributes, read through the bases into a generated constant; `d.word_fmt % n` = py_format1 (the two formats of the
  dialect classes, anything else Unsupported).
* a local that is assigned None somewhere, something else somewhere and compared with None somewhere holds None or an int
  (option Z): `x = None` / `x = e` = None / Some e, `x is None`, `None + int` = TypeError, a slice bound of that kind is Python's
  missing bound; tuple displays of Coq values; `l.sort(key=lambda x: e)` = py_sort_asc (stable insertion sort) or, for a
  None-or-int key, py_sort_optkey (TypeError as soon as two items are compared with a None key).
* bytes_to_bits: `for x in range(..)` whose variable the body reads iterates over list(range(..)) = py_range a b c (literal step),
  `_range(..)` likewise (compat: list(range(..))); `n * [None]` = a list of n None-or-text slots, `l[i] = e` on it = py_list_set
  (IndexError), which REBINDS l (assigned_names counts item assignment); `''.join(l)` on it = py_join_opt (TypeError on None).
Trusted additionally for SRCC: the tables SRCC_UNITS SRCC_SOCKET SRCC_SOCKET_MODULES SRCC_SHARED_CONSTS SRCC_TABLE_TERM, the
declared parameter types, Model/SrcPreludeText.v, and the reading of compat._str_type / _is_str / _bytes_join / _range above.
SRCF (class FnF, units SRCF_UNITS: second units over netaddr/strategy/eui48.py, eui64.py -> pysrc_eui48b_gen.v, pysrc_eui64b_gen.v, and
over netaddr/eui/__init__.py -> pysrc_euib_gen.v; symbols in Model/SrcPreludeEui2.v; a unit names its own subclass of Fn in FN_CLASS,
which sees a construct first and hands everything it does not recognise to Fn):
* a dialect parameter declared `optedialect` is None or the record (word_size, num_words, word_sep, word_fmt) of a dialect class
  (dialect_t = Model/Eui.v dialect; attributes d_word_size ..); `if dialect is None: dialect = NAME` binds the regenerated record
  constant src_<m>_<NAME>_rec of the class NAME stands for (ints as for DEFAULT_DIALECT, the two strings literal, through the
  bases); `if x is None: x = e` for an `optstr` parameter likewise.  A record handed to a callee translated with the pair is d_pair.
* calls of translated functions may use keyword arguments and omit trailing parameters (the callee's literal default is passed).
* the module's own `width` / `version` / `max_int` are the constants src_<m>_width .. of Gen/pysrc_eui_gen.v.
* `_struct.pack('>..', a, b)`, `_struct.pack('>kB', *l)`, `_struct.unpack('>kB', b)` (with `import struct as _struct`) =
  py_struct_pack / py_struct_unpack <byte widths read from the literal> (Model/Codec.v struct_pack / struct_unpack, StructError);
  a bytes object is the list of its byte values; list(<list>) is that list.
* an EUI method: `self._module.f(args)` = `if ver =? src_eui48_version then src_eui48_f args else if ver =? src_eui64_version then
  src_eui64_f args else Raise Unsupported` (the two modules the file imports as _eui48 / _eui64; any other _module is outside the
  class invariant); the pseudo-parameter "self._dialect" of a unit entry makes the receiver's _dialect a leading parameter;
  `self._value = <call>` as the last state assignment returns the new value; `l[i]` with a computed index = py_getitem_o (IndexError),
  `l[i] = e` = py_setitem_o on an unaliased list, `l[a:b]` for literals 0 <= a <= b = py_slice_lit; `text % n` = py_fmt_int (Model/Eui.v
  apply_fmt), `text % tuple(l)` = py_fmt_ints; `sep.join(l)` = join; `[e for x in xs]` = map, or py_map_o when e can raise;
  `int(s, 16)` / `int(s, 10)` = py_int_o; (a, b) <op> (c, d) on tuples of ints = componentwise equality / lexicographic order;
  hash((a, b)) = py_hash_pair (the pair itself); `_is_int(x)`, `isinstance(x, slice)`, `isinstance(x, EUI)` are decided by the
  declared type of x (int / str / eui).
* parsers: the module-level lists of compiled regular expressions RE_MAC_FORMATS / RE_EUI64_FORMATS are the hand-compiled matchers
  mac_pats / eui64_pats of Model/Eui.v (SRCF_TABLES; pinned to the regenerated pattern strings by Proofs/GenOk_C08.v);
  `regexp.findall(text)` = py_findall = match_pat (None = [], Some groups = [groups]; TypeError for an int argument), len() / truth /
  [0] of that result = py_matches_len / py_found / py_match0; the groups of a match are a list of text -- a tuple, or for a
  one-group pattern that group's text itself: isinstance(g, tuple) = py_is_tuple, (g,) = [py_group_str g]; a function that returns
  from inside a loop and None at its end has an optional result (`if x:` / `if not x:` on it narrows x in the true branch);
  `try: <findall on text, len, comparisons> / except TypeError: pass` is its body (dead handler); a unit entry `f:int` is the
  specialisation of f to an int first argument, chosen at a call by the type of the argument; a function all of whose paths raise
  has result type int.
* full-state methods (unit entry with the pseudo-parameter "self.*": EUI.__init__, _set_value, __setstate__): the attributes
  _module / _value / _dialect are tracked at translation time (env["self._module"] = none | module (version term, eui48 | eui64 | unknown)),
  every `if` on them duplicates the continuation, `self._module is None` is decided statically, `for module in (_eui48, _eui64)` is
  unrolled (break = the statements after the loop), `try: body / except E: pass` = every call of the body that raises E continues after
  the try (IR trybind; no call may follow a state assignment in the body), `try: self._value = call / except E1: raise E2` = py_except,
  `self.value = x` = the _set_value specialisation for the module known there (`_set_value:implicit_<type>` / `:eui48_<type>` /
  `:eui64_<type>`), `self.dialect = d` = _set_dialect, super(C, self).__init__() = the base class's constant attribute assignments,
  `if x is not None [and ..]` on an `optint` parameter = match; the method answers the final state ((version, value) for _set_value,
  the eui record for __init__ / __setstate__); a parameter declared "tup:t1,t2,.." is a tuple; a @classmethod listed in
  SRCF_CLASSMETHODS whose `cls` is only read as cls.<constant> is a method of a stateless receiver with cls = its class.
* netaddr/eui/ieee.py -> pysrc_ieee_gen.v (symbols in Model/SrcPreludeIeee.v): pseudo-parameter "self.fh" = the binary file the parser
  reads as two leading parameters self_fh_lines / self_fh_tell (`x = self.fh.readline()` = py_readline, self.fh.tell() = the position);
  self.notify(r) appends r to the list the method returns; every text value is a bytes object: `a in b` = py_bytes_in,
  b.split()[0] = py_bytes_split0, b.split(sep)[0] = py_bytes_split_sep0, int(b, 16) = py_int16_bytes (Model/Ieee.v int16), truth =
  py_bytes_truthy, a + b = String.append, _bytes_type('lit') = the literal; a local declared `optintlist` / `optbilist` in the unit
  entry is None or a list of ints / of bytes-or-int values (bi: BiB | BiI; elements are injected by their static type): `x is not None`
  and x.append(e) narrow x to the list (AttributeError on None), x[k] / x[k] = e raise TypeError on None, v.replace(..) on a bi value
  raises AttributeError for an int; `while True` runs on FUEL = len(self_fh_lines) + 1.
* the classes OUI / IAB of netaddr/eui/__init__.py -> pysrc_euic_gen.v: a unit entry key "dict:<name>" declares a dict with constant
  string keys held in a local or in self.<attr>: it is one variable per key (d['k'] = d__k; a dict literal = the assignments of its
  keys; an attribute dict = leading parameters and the result); `self.<list>.append(d)` as the last statement = the method answers d;
  a for loop whose body rebinds its loop variable gets a fresh one; str(self) = the translated __str__; text % (a, b, ..) = py_fmt_ints;
  s.split("\n") = py_str_split_nl, s.strip() = py_str_strip, s.split(None, 2)[2] = py_str_field3 (Model/Ieee.v split_nl / strip /
  third_field), `a in b` and truth of text as for bytes.
SRCG (class FnG, a subclass of FnE, units SRCG_UNITS; all code in the block `SRCG` at the end of this file; symbols in
Model/SrcPreludeG.v; the text generated for every other unit is untouched):
* netaddr/ip/iana.py -> pysrc_iana_gen.v (C19: _within_bounds, query).  IANA_INFO is a table symbol: a Section variable
  `IANA_INFO : string -> list irow` of the generated file (the module-level name must be bound once, to a dict literal of empty
  dicts; `IANA_INFO['K']` needs a literal key of that literal); a row (Model/Iana.v irow) is one dictionary item, key object and
  record: `for a, b in _dict_items(IANA_INFO['K']): body` (compat._dict_items checked to be `lambda x: list(x.items())`) is
  rewritten by SrcgPrepare to `for a__b__N in __g_iana_items('K'): a = __g_item_key(..); b = __g_item_value(..); body` -- a (type
  `ikey`) and b (type `irec`) are the same row.  `hasattr(x, 'name')` on an `ikey` splits into the three classes a key object can
  have (SrcPreludeG.py_ikey_view: IKNet = an IPNetwork object, IKRange = an IPRange (refined operand ORng), IKAddr = an
  IPAddress (version, value)); inside an arm `hasattr` on a BaseIP object is decided from the parsed class (a property / method /
  class attribute found through the bases; every class on the way must have a literal __slots__ that does not list the name and no
  __getattr__), a decided branch that returns is not followed by the rest (the final `raise Exception` of _within_bounds is dead).
  `x in y` / `x == y` / `x != y` on names bound to BaseIP objects = the translated __contains__ / __eq__ / __ne__ of y's / x's
  class on the other one as operand; `x.m(..)` on an IPAddress object = the translated method; an IPAddress object handed to a
  translated function is its pair.  A local first bound by `d = {}` is a dict of lists (type `sdict` = association list in
  insertion order): `d.setdefault('k', [])` = py_sd_setdefault, `d['k'].append(e)` = py_sd_append (KeyError), rewritten to
  assignments of d before translation (the names __g_* are the translator's).
* netaddr/eui/__init__.py -> pysrc_euig_gen.v (C19: the identifier classes).  Types: `oui` / `iab` = an OUI / IAB object, represented
  by its integer (as for CTOR_AS_ARG): `isinstance(x, C)` on it is decided by the class hierarchy, `x._value` is the integer;
  `orec` = a registration record (the dict with the six constant keys of SRCG_REC_KEYS) as the tuple of its values in that order --
  what the SRCF unit's _parse_data answers.  Unit-entry pseudo-parameters: "self.<attr>": <type> makes that attribute a leading
  parameter; "self.*": "a,b" declares a constructor-like method: the listed attributes are locals (unbound at entry), the method
  must not return a value and answers the tuple of their final values; a parameter type "tup:t1,t2" is a tuple.  `isinstance(<int /
  str parameter>, str)` and `_is_int(x)` are decided by the declared type; `DictDotLookup(d)` (the attribute view of a dict) is d;
  `'<text>%s<text>' % self` = the text around the translated __str__; `'<text>%o' % e` = py_fmt_oct; `'<text>%x' % e` = py_fmt_hex.
  The constructors OUI.__init__ / IAB.__init__ (variant `:int`) are first rewritten by FnG.prepare_ctor (its docstring lists the
  rewrites): super().__init__() inlined, the function-level `from netaddr.eui import ieee` dropped with `ieee.OUI_INDEX` /
  `ieee.IAB_INDEX` read as the Section variables of those names (type eindex = the dict's items; `k in D` = py_eidx_mem, `D[k]` =
  py_eidx_get with KeyError; ieee.py must bind the name once by `NAME = {}`), the file object dropped with `fh.seek(o); x =
  fh.read(n).decode('UTF-8')` (adjacent statements) = REGISTRY_FILE '<file>' o n (a Section variable; UnicodeDecodeError is not
  modelled), the record dict literal / `self.record['k'] = e` as tuple construction / py_rec_set, the statement
  `self._parse_data(..)` as the assignment of what the translated callee answers (checked: the callee touches the object only
  through self.records.append(record) as its last statement, resp. through self.record[..] = ..), `for (a, b) in e` unpacked in
  the body, `a, b = <method answering a tuple of ints>` = py_pair_of_list (ValueError), a call of a SRCF_CLASSMETHODS classmethod
  through self with keyword arguments.  EUI.__repr__ declares "self._dialect" (the translated EUI.__str__ takes the receiver's dialect
  first).  EUI.info: `self.oui.registration()` / `self.iab.registration()` really build the identifier object (FnG.registration_of:
  None -> AttributeError, else the translated constructor __init__:int on the integer the translated getter answers, then the
  translated registration()); `d = {'OUI': e}` / `d['IAB'] = e` is the pair (record, None-or-record) (type einfo).
* netaddr/eui/ieee.py -> pysrc_ieeeg_gen.v (C19: load_index).  A parameter declared `eindex` is an index dict changed in place: the
  function answers the new dict (a `return` is appended; it must have none of its own); `index.setdefault(k, [])` /
  `index[k].append((a, b))` = py_eidx_setdefault / py_eidx_append; `try: BODY / finally: <file parameter>.close()` is BODY;
  `_csv.reader([x.decode('UTF-8') for x in fp])` for the file parameter fp (declared `list str`: its lines) = the Section variable
  CSV_READER applied to the lines (csv.Error / UnicodeDecodeError not modelled; `import csv as _csv` checked); `[int(x) for x in
  xs]` over text = py_map_og (py_int_o 10) (ValueError at the first bad item); `(a, b, c) = <list of ints>` = py_triple_of_list.
* netaddr/ip/__init__.py -> pysrc_ipg_gen.v (C01: __repr__ of IPAddress / IPNetwork / IPRange, IPRange.__str__, IPAddress.__oct__;
  C16: IPNetwork.ipv4).  `'..%s..%d..' % (a, ..)` = the pieces joined by String.append: %d = fmt_d of an int, %s = text itself, an int
  in decimal, `self` / an IPAddress object (also self._start / self._end of an IPRange) through the translated __str__,
  `self.__class__.__name__` = the name of the receiver class.  A definition that reaches a translated definition taking the socket
  back-end takes `(be : backend)` first.  `klass = self.__class__; klass(<text>)` for the receiver class IPNetwork = the translated
  constructor IPNetwork.__init__:str with its literal defaults; `_ipv4.f(args)` = the function f translated by a unit over
  netaddr/strategy/ipv4.py (an omitted trailing parameter whose default is None and whose Coq type is unit: tt).  A local that
  stays None on the paths where no branch assigns it makes the result optional (`ip = None .. return ip`).
  IPAddress.format: a parameter declared `darg6` is None | a dialect class with word_fmt (the pair (word_fmt, compact), as the SRCC
  unit's optcls6) | another object (SrcPreludeG.darg6): `x is [not] None` on it splits into the three constructors, inside the arms
  `x is None` and `hasattr(x, 'word_fmt')` are decided; `self._module.f(a, kw=b)` on an IPAddress receiver = `if ver =?
  src_ipv4_version then <ipv4's f> else if ver =? src_ipv6_version then <ipv6's f> else Raise Unsupported`, arguments by each
  callee's signature (a parameter the callee was translated with type unit gets tt; None / a class for optcls6 = None / Some).
* netaddr/ip/__init__.py -> pysrc_uniq_gen.v (C05: iter_unique_ips).  `def f(*xs)` with xs declared a list takes the tuple of its
  arguments as one list parameter; a generator of exactly the shape `for x in E: for y in x: yield y` is the list of what it
  yields: py_flat_addrs E for a list E of IPNetwork objects (`for y in x` over an IPNetwork = py_net_addrs, the hand model of
  IPListMixin.__iter__: IPAddress(first) .. IPAddress(last) as pairs); every other generator shape is rejected by FnG.
* netaddr/ip/iana.py -> pysrc_ianab_gen.v (C19: MulticastParser.normalise_addr, DictUpdater.update).  `srec` = a record (dict of text) as
  an association list: `d[k]` = py_srec_get (KeyError).  `self.dct[k] = v` must be the last statement of its path (SrcgPrepare.dict_items
  checks tail position): the method answers the item (k, v) -- k as SrcPreludeG.ikeyview by its static class (IKNet / IKRange /
  IKAddr) --, None on a path that stores nothing; the dict itself is not represented.  Text: `'c' in s` = contains_char,
  `s.split('c')` = split, `s.strip()` = py_strip (PyStr.strip), `sep.join(l)` = join, `(a, b) = <list of text>` = py_unpack2g
  (ValueError), `[str(int(x)) for x in xs]` = py_map_og of py_int_o 10 then fmt_d.  `IPAddress(<text>)` / `IPNetwork(<text>)` =
  the translated constructors __init__:str with their literal defaults, `x = IPRange(<text>, <text>)` = the translated
  IPRange.__init__:str, x being a refined IPRange operand afterwards (`x.cidrs()` = the translated method); a local that holds an
  IPRange on one path and an IPNetwork on another is never joined (the continuation is translated once per path).
* netaddr/core.py -> pysrc_core_gen.v (C12: num_bits).  The name is defined twice, `try: <probe>; def num_bits / except AttributeError: def
  num_bits` at module level (shape checked by the wrapper of Module.function): entries `num_bits:bit_length` (the try body's
  definition, the one in use) and `num_bits:fallback` (the handler's); `x.bit_length()` = py_num_bits (SrcPreludeCmp = Order.num_bits),
  the truth value of an int in `while int_val:` = `!= 0`, fuel of that loop from FUEL (int_val + 1).
* netaddr/contrib/subnet_splitter.py -> pysrc_splitterg_gen.v (C20: SubnetSplitter.__init__ on an IPNetwork argument), read by Fn itself.
* netaddr/ip/sets.py -> pysrc_sets_g_gen.v (C07: IPSet.__iter__, __hash__, __reduce__, __repr__; read by FnG, the SRCA hooks are not active):
  `sorted(self._cidrs)` = py_sorted_nets of the keys (SrcPreludeSets = Sets.sorted); `_itertools.chain(*l)` over IPNetwork objects = the
  iterator as the list of what it yields, py_flat_addrs l; a method whose body is one `raise E` is `Raise E : outcome unit`;
  `return self.__class__, (), <state>` (__reduce__) answers the state component (class and empty argument tuple are constants);
  `'<text>%r<text>' % <list of text>` = Python's repr of a list of str, py_repr_strlist (Unsupported for an item that needs escaping);
  `[str(c) for c in <IPNetwork objects>]` = py_map_og of the translated IPNetwork.__str__.
* netaddr/ip/glob.py -> pysrc_globg_gen.v (C17: IPGlob.__repr__), read by FnGB, a subclass of FnB that adds `self.__class__.__name__`.
* netaddr/compat.py: SRCG_COMPAT_EXPECT lists, for every compat name that some reader accepted on the strength of its import alone
  (_int_type _str_type _dict_keys _dict_items _iter_next _range _bytes_join _importlib_resources), the source text its first binding
  (the Python 3 branch) must be equal to as an AST; a name whose binding differs is removed from the import table of every parsed
  module (wrapper of Module.__init__), so exactly the functions that use it stop translating.
"""
import ast
import os
import re

REPO = os.environ.get("NV_REPO", "/repo")
IPFILE = "netaddr/ip/__init__.py"
STRATEGY = (("ipv4", "netaddr/strategy/ipv4.py"), ("ipv6", "netaddr/strategy/ipv6.py"))

# receiver class -> parameters standing for the object state (version, width, _value[, _prefixlen] / _start, _end values)
STATE = {"BaseIP": ("ver", "w", "v"), "IPAddress": ("ver", "w", "v"), "IPNetwork": ("ver", "w", "v", "p"),
         "IPRange": ("ver", "w", "s", "e"), None: (), "SubnetSplitter": (), "EUI": ("ver", "v")}
FIELD = {"self._value": "v", "self._prefixlen": "p"}      # assignable state attributes -> their state parameter

# ---- trusted translator input --------------------------------------------------------------------------------------
# (receiver class, method, {parameter: type}); the method is looked up through the receiver's bases
WHITELIST = [(c, m, {}) for c, ms in (
    ("IPNetwork", "_hostmask_int _netmask_int first last size network broadcast netmask hostmask ip cidr key sort_key "
                  "__iadd__ __isub__ version prefixlen supernet"),
    ("BaseIP", "is_ipv4_mapped is_ipv4_compat version"),
    ("IPAddress", "key sort_key is_hostmask is_netmask __int__ __index__ __nonzero__ __iadd__ __isub__ __add__ __sub__ "
                  "__rsub__ __or__ __and__ __xor__ __lshift__ __rshift__ ipv4 version netmask_bits"),
    ("IPRange", "first last key size version")) for m in ms.split()] + [
    ("BaseIP", "_set_value", {"value": "sarg"}), ("IPNetwork", "_set_prefixlen", {"value": "sarg"}),
    ("IPAddress", "ipv6", {"ipv4_compatible": "bool"}), ("IPNetwork", "ipv6", {"ipv4_compatible": "bool"}),
    ("IPNetwork", "__contains__", {"other": "operand"}), ("IPRange", "__contains__", {"other": "operand"})]
# module-level functions (receiver None): every parameter is declared
FUNCS = [(None, "spanning_cidr", {"ip_addrs": "list net"}), (None, "cidr_partition", {"target": "net", "exclude": "net"}),
         (None, "cidr_exclude", {"target": "net", "exclude": "net"}), (None, "iprange_to_cidrs", {"start": "net", "end": "net"})]
# output files in dependency order; a definition may use definitions of its own file and of the files before it
FILES = ("pysrc_gen.v", "pysrc_span_gen.v", "pysrc_partition_gen.v", "pysrc_iprange_gen.v")
FILE_OF = {"spanning_cidr": "pysrc_span_gen.v", "cidr_partition": "pysrc_partition_gen.v",
           "cidr_exclude": "pysrc_partition_gen.v", "iprange_to_cidrs": "pysrc_iprange_gen.v"}
# fuel of every `while` loop: (receiver, function, loop number) -> (Python int expression evaluated at loop entry, constant);
# the loop runs with fuel `Z.to_nat <expression> + <constant>` -- the hand model's fuel (Model/Ip.v nb_loop, Span.v span_loop,
# Partition.v part_loop,
# Subnet.v supernet_loop).  A while loop without an entry is untranslatable.
FUEL = {("IPAddress", "netmask_bits", 1): ("self._module.width", 2),
        ("IPNetwork", "supernet", 1): ("self._module.width", 2),
        (None, "spanning_cidr", 2): ("width", 1),
        (None, "cidr_partition", 1): ("target_module_width", 1)}
# documented skip list: (receiver, method) -> reason.  Nothing of the requested whitelist is skipped.
SKIP = {("IPRange", "sort_key"): "calls core.num_bits (int.bit_length): outside the integer-expression subset",
        ("IPNetwork", "netmask.setter"): "string/IPAddress argument through the IPAddress() parser",
        ("IPAddress", "__radd__"): "class-level alias `__radd__ = __add__`, not a function definition (covered by __add__)",
        ("IPAddress", "__bool__"): "class-level alias `__bool__ = __nonzero__` (covered by __nonzero__)",
        ("IPListMixin", "__contains__"): "reachable only from user subclasses; IPNetwork and IPRange override it",
        ("IPNetwork", "__contains__ fallback"): "`return IPNetwork(other) in self` for a non-BaseIP operand (string parser): Raise Unsupported",
        ("IPRange", "__contains__ fallback"): "`return IPAddress(other) in self` for a non-BaseIP operand (string parser): Raise Unsupported"}

# ---- third round: other source files.  One unit = (source file, output file, prefix of the generated names of its module-level
# functions, extra `Require`d prelude modules, entries as in WHITELIST/FUNCS).  A unit may call translated definitions of
# netaddr/ip/__init__.py through the names it imports from netaddr.ip.
UNITS = [
    ("netaddr/contrib/subnet_splitter.py", "pysrc_splitter_gen.v", "", " Model.SrcPreludeSplitter",
     [("SubnetSplitter", "available_subnets", {}), ("SubnetSplitter", "remove_subnet", {"ip_network": "net"}),
      ("SubnetSplitter", "extract_subnet", {"prefix": "int", "count": "optint"})]),
    # IPListMixin indexing / len for the two receiver classes; `__getitem__:int` / `__getitem__:slice` are the two specialisations
    # of __getitem__ by the declared type of `index` (`hasattr(index, 'indices')` is decided by that type)
    (IPFILE, "pysrc_listlike_gen.v", "", " Model.PySlice Model.ListLike",
     [(c, m, t) for c in ("IPNetwork", "IPRange") for m, t in (
         ("__len__", {}), ("__getitem__:int", {"index": "int"}), ("__getitem__:slice", {"index": "slice"}))]),
    # the word functions of netaddr/strategy/__init__.py; a sequence of words is a list of ints
    ("netaddr/strategy/__init__.py", "pysrc_strategy_gen.v", "strategy_", " Base.PyStr Model.SrcPreludeStr",
     [(None, f, {"words": "list int", "int_val": "int", "word_size": "int", "num_words": "int"}) for f in (
         "valid_words", "int_to_words", "words_to_int")] +
     # the bit-string / binary-literal functions: text is a Coq string (Base/PyStr.v), its operations are SrcPreludeStr symbols
     [(None, f, {"bits": "str", "bin_val": "str", "word_sep": "str", "width": "int", "int_val": "int"}) for f in (
         "valid_bits", "bits_to_int", "valid_bin", "bin_to_int", "int_to_bin")]),
    # the word functions of the two EUI strategy modules (they pick the dialect and call the functions above)
    ("netaddr/strategy/eui48.py", "pysrc_eui48_gen.v", "eui48_", "",
     [(None, f, {"words": "list int", "int_val": "int", "dialect": "optdialect"}) for f in ("valid_words", "int_to_words", "words_to_int")]),
    ("netaddr/strategy/eui64.py", "pysrc_eui64_gen.v", "eui64_", "",
     [(None, f, {"words": "list int", "int_val": "int", "dialect": "optdialect"}) for f in ("valid_words", "int_to_words", "words_to_int")]),
    # the integer methods of EUI (state: _module.version, _value)
    ("netaddr/eui/__init__.py", "pysrc_eui_gen.v", "", " Model.Eui Model.SrcPreludeEui",
     [("EUI", m, {}) for m in ("version", "value", "__int__", "oui", "is_iab", "eui64", "modified_eui64", "ipv6", "ipv6_link_local")]),
    # the address classification predicates of BaseIP, one copy per receiver class; the block tables they consult are module-level
    # names whose VALUES are regenerated by harness/gen/classify.py (coq/Gen/classify_gen.v: rows (kind, version, a, b)): UNIT_TABLES
    (IPFILE, "pysrc_classify_gen.v", "", " Gen.classify_gen",
     [(c, m, {}) for c in ("IPAddress", "IPNetwork", "IPRange")
      for m in ("is_multicast", "is_unicast", "is_loopback", "is_link_local", "is_private", "is_reserved")]),
]
# module-level names of a unit's source file that stand for generated tables: output file -> {name: type}; `row` = one
# IPNetwork / IPRange object as the row (kind, version, value-or-start, prefixlen-or-end) of classify_gen.v
UNIT_TABLES = {"pysrc_classify_gen.v": dict([("IPV%d_%s" % (v, n), "row") for v in (4, 6) for n in ("LOOPBACK", "LINK_LOCAL", "MULTICAST")]
                                            + [("IPV%d_%s" % (v, n), "list row") for v in (4, 6) for n in ("PRIVATE", "RESERVED")])}
# fixed text at the top of a unit's file.  `x in T` for a table row T is T.__contains__(x) of the row's class:
UNIT_PREAMBLE = {"pysrc_classify_gen.v": (
    "(* `x in T` for a row T of Gen/classify_gen.v: the translated __contains__ of the row's class (kind 0 = IPNetwork, 1 = IPRange) *)\n"
    "Definition src_contains_row (r : Z * Z * Z * Z) (o : operand) : outcome bool :=\n"
    "  let '(k, ver, a, b) := r in\n"
    "  if k =? 0 then src_IPNetwork_contains ver (width ver) a b o else src_IPRange_contains ver (width ver) a b o.\n")}
# the receiver as the operand of `self in T`
SELF_OPERAND = {"IPAddress": "(OAddr ver v)", "IPNetwork": "(ONet ver v p)", "IPRange": "(ORng ver s e)"}
# strategy modules whose constants width / version / max_int a unit may read through the alias it imports them under
UNIT_STRATEGY = {"pysrc_eui_gen.v": (("eui48", "netaddr/strategy/eui48.py"), ("eui64", "netaddr/strategy/eui64.py"))}
# classes whose constructor call C(e) is represented by its integer argument e (the registry lookup the constructor makes is
# NOT translated; the models of C08/C19 treat it separately)
CTOR_AS_ARG = ("OUI", "IAB")
# names imported from netaddr.compat that a unit may read: output file -> {name: (type, Coq term)}; the term must be defined by
# the modules the unit `Require`s (Model/PySlice.v: ssize_max = sys.maxsize of the 64-bit platform the check runs on).
# compat_ok() checks that netaddr/compat.py still binds the name to one of the expressions listed here.
UNIT_NAMES = {"pysrc_listlike_gen.v": {"_sys_maxint": ("int", "ssize_max")}}
COMPAT = {"_sys_maxint": ("_sys.maxsize", "_sys.maxint"), "_iter_range": ("range", "xrange")}
# hasattr(<parameter>, <name>) by the declared type of the parameter
HASATTR = {("int", "indices"): False, ("slice", "indices"): True, ("int", "__iter__"): False, ("list", "__iter__"): True}
FILES = FILES + tuple(u[1] for u in UNITS)
# classes whose object state is a set of attributes read and written like locals: (attribute, type) in parameter order.  A method
# that assigns one of them (or calls a method that does) returns the new state: alone if it returns no value, else (state, value).
STATEVARS = {"SubnetSplitter": (("_subnets", "set net"),)}
# calls that are NOT translated: they become symbols of the prelude named in the unit (the hand model of the callee):
# imported function -> (symbol, parameter types, result type); all of them can raise
EXTERN = {"netaddr.ip.cidr_merge": ("py_cidr_merge", ("list net",), "list net")}

# ---- SRCD: constructors, pickled state and the network parser of netaddr/ip/__init__.py: two more units over IPFILE.  The
# constructs they add are read by class CtorFn of harness/gen/pysrc_ctor.py (see its docstring); `"m:variant"` = the method
# specialised to the declared parameter types: int | str | obj (an IPAddress object) | net | optint | tup2 / tup3 (a tuple of ints)
_CTOR_ARGS = {"version": "optint", "flags": "int"}
CTOR_UNITS = [
    (IPFILE, "pysrc_ctor_gen.v", "", " Base.PyStr Model.SrcPreludeStr Model.AddrText Model.SrcPreludeCtor Gen.pysrc_gen",
     [("IPAddress", "__init__:int", dict(_CTOR_ARGS, addr="int")), ("IPAddress", "__init__:copy", dict(_CTOR_ARGS, addr="obj")),
      ("IPAddress", "__init__:str", dict(_CTOR_ARGS, addr="str")), ("IPAddress", "__str__", {}),
      # pickled state (a state is the tuple of ints that __getstate__ made) and the IPRange constructor
      ("IPAddress", "value", {}), ("IPAddress", "__getstate__", {}), ("IPAddress", "__setstate__", {"state": "tup2"}),
      ("IPNetwork", "__getstate__", {}), ("IPNetwork", "__setstate__", {"state": "tup3"}),
      ("IPRange", "__getstate__", {}), ("IPRange", "__setstate__", {"state": "tup3"}),
      ("IPRange", "__init__:int", {"start": "int", "end": "int", "flags": "int"}),
      ("IPRange", "__init__:str", {"start": "str", "end": "str", "flags": "int"}),
      # the netmask setter (SKIP says why Fn cannot read it), specialised to an int and to an IPAddress argument
      ("IPNetwork", "netmask.setter:int", {"value": "int"}), ("IPNetwork", "netmask.setter:addr", {"value": "obj"})]),
    # the network parser and the IPNetwork constructor, specialised to the kind of `addr`: a tuple of ints | text | an IPNetwork
    # object | an IPAddress object | an int (standing for every other type); text renderings
    (IPFILE, "pysrc_parse_gen.v", "", " Base.PyStr Model.SrcPreludeStr Model.AddrText Model.SrcPreludeCtor Gen.pysrc_gen Gen.pysrc_ctor_gen",
     [(None, "cidr_abbrev_to_verbose.classful_prefix:int", {"octet": "int"}),
      (None, "cidr_abbrev_to_verbose.classful_prefix:str", {"octet": "str"}),
      (None, "cidr_abbrev_to_verbose", {"abbrev_cidr": "str"})] +
     [(None, "parse_ip_network:" + v, {"module": "mod", "addr": t, "implicit_prefix": "bool", "flags": "int"})
      for v, t in (("tuple", "inttuple"), ("str", "str"), ("int", "int"))] +
     [("IPNetwork", "__init__:" + v, {"addr": t, "implicit_prefix": "bool", "version": "optint", "flags": "int"})
      for v, t in (("tuple", "inttuple"), ("str", "str"), ("net", "net"), ("addr", "obj"), ("int", "int"))] +
     [("IPNetwork", "__str__", {})]),
]
CTOR_FN_UNITS = tuple(u[1] for u in CTOR_UNITS)      # units whose functions are read by CtorFn
UNITS += CTOR_UNITS
FILES = FILES + CTOR_FN_UNITS
UNIT_SEES = {"pysrc_parse_gen.v": ("pysrc_ctor_gen.v",)}     # unit -> earlier units over the same source file whose definitions it may call
BY_OUT = {}                             # output file -> its translator (filled by Translator.__init__)
# ---- SRCE: the non-constructor functions of netaddr/ip/__init__.py (units translated by class FnE below; see the docstring
# paragraph "SRCE").  Every unit listed in SRCE_FILES uses FnE (table FN_CLASS, filled after the class).
SRCE_UNITS = [
    # C05: IPRange.cidrs, cidr_merge (items: IPNetwork or IPRange objects = Merge.mitem; the range tuples = Merge.rtuple)
    (IPFILE, "pysrc_merge_gen.v", "", " Model.Merge Model.SrcPreludeSRCE Model.SrcPreludeMerge",
     [("IPRange", "cidrs", {}), (None, "cidr_merge", {"ip_addrs": "list mitem"})]),
    # C11: the generator IPNetwork.subnet (prologue + one resumption), next / previous, iter_hosts
    (IPFILE, "pysrc_subnet_gen.v", "", " Model.PySlice Model.ListLike Model.SrcPreludeSRCE",
     [("IPNetwork", "subnet:start", {"prefixlen": "int", "count": "optint", "fmt": "optint"}), ("IPNetwork", "subnet:next", {}),
      ("IPNetwork", "next", {"step": "int"}), ("IPNetwork", "previous", {"step": "int"}), ("IPNetwork", "iter_hosts", {})]),
    # C10: the generator iter_iprange (its arguments are IPAddress objects), IPListMixin.__iter__ / __nonzero__ for the receiver
    # classes IPNetwork and IPRange
    (IPFILE, "pysrc_iter_gen.v", "", " Model.PySlice Model.ListLike Model.SrcPreludeSRCE",
     [(None, "iter_iprange:start", {"start": "obj", "end": "obj", "step": "int"}), (None, "iter_iprange:next", {})] +
     [(c, m, {}) for c in ("IPNetwork", "IPRange") for m in ("__iter__", "__nonzero__")]),
    # C04: the three matching functions (`ip` an IPAddress object, `cidrs` a list of IPNetwork objects) and IPListMixin.__contains__
    # (`:mixin` = the definition of IPListMixin itself for a receiver class that overrides it)
    (IPFILE, "pysrc_match_gen.v", "", " Model.Contains Model.SrcPreludeSRCE Model.SrcPreludeMatch",
     [(c, "__contains__:mixin", {"other": "operand"}) for c in ("IPNetwork", "IPRange")] +
     [(None, f, {"ip": "obj", "cidrs": "list net"}) for f in ("all_matching_cidrs", "smallest_matching_cidr", "largest_matching_cidr")]),
    # C12: the rich comparisons and __hash__ of BaseIP for the three receiver classes, IPRange.sort_key (core.num_bits = py_num_bits)
    (IPFILE, "pysrc_cmp_gen.v", "", " Model.SrcPreludeSRCE Model.SrcPreludeCmp",
     [("IPRange", "sort_key", {})] +
     [(c, m, {"other": "operand"}) for c in ("IPAddress", "IPNetwork", "IPRange")
      for m in ("__eq__", "__ne__", "__lt__", "__le__", "__gt__", "__ge__")] +
     [(c, "__hash__", {}) for c in ("IPAddress", "IPNetwork", "IPRange")] + [("IPAddress", "__long__", {})]),
    # C15 (and C14 for __hex__): the IPAddress accessors that hand the value to a function of the strategy module (MODULE_FUNCS)
    (IPFILE, "pysrc_ipviews_gen.v", "", " Base.PyStr Model.SrcPreludeSRCE Model.SrcPreludeViews",
     [("IPAddress", "bits", {"word_sep": "optstr"})] +
     [("IPAddress", m, {}) for m in ("bin", "words", "packed", "reverse_dns", "__bytes__", "__hex__")]),
]
# functions of the strategy module called as `self._module.<f>(..)`: NOT translated here (netaddr/strategy/ipv4.py, ipv6.py are
# another unit's); <f> -> (prelude symbol = the hand model of Model/Codec.v by version, parameter types, result type)
MODULE_FUNCS = {"int_to_bits": ("py_mod_int_to_bits", ("int", "optstr"), "str"), "int_to_bin": ("py_mod_int_to_bin", ("int",), "str"),
                "int_to_words": ("py_mod_int_to_words", ("int",), "list int"), "int_to_packed": ("py_mod_int_to_packed", ("int",), "list int"),
                "int_to_arpa": ("py_mod_int_to_arpa", ("int",), "str")}
UNITS = UNITS + SRCE_UNITS
FILES = FILES + tuple(u[1] for u in SRCE_UNITS)
FUEL.update({(None, "cidr_merge", 2): ("len(ranges)", 1)})      # the backward scan runs at most len(ranges) - 1 times
for _k in (("IPRange", "sort_key"), ("IPListMixin", "__contains__")):      # no longer skipped: units pysrc_cmp_gen.v, pysrc_match_gen.v
    SKIP.pop(_k, None)
SRCE_TYPES = {"mitem": "mitem", "rtup": "rtuple", "ipstr": "Z", "optnet": "(option net)",
              "objv": "(Z * Z)", "hashfn": "(list Z -> Z)",
              "optstr": "(option string)"}   # new value types -> their Coq types (objv: an IPAddress object carried through a loop as its pair)
# declared types of locals that start as None: (receiver, function, local) -> type (`optnet`: None or an IPNetwork object)
SRCE_LOCALS = {(None, "smallest_matching_cidr", "match"): "optnet", (None, "largest_matching_cidr", "match"): "optnet"}

EXN = ("AddrFormatError", "AddrConversionError", "ValueError", "TypeError", "IndexError", "KeyError", "StructError",
       "NotRegisteredError", "AttributeError", "OverflowError")
RESERVED = set("ver w v p s e in let if then else match with end fun forall exists as return at do fix cofix for using "
               "where Type Prop Set Ok Raise Some None true false fst snd negb omap bind width max_int_w mk_addr mk_net "
               "SInt Z bool list option outcome net sarg nil cons nver nval nplen rev app map fuel xs nat unit tt O S "
               "py_pop operand OAddr ONet ORng OOther struct "
               "py_nonempty py_sorted_desc py_set_remove py_set_of_list py_set_union py_flat_map_o net_key_eqb py_list_subnet "
               "py_cidr_merge inl inr sum py_except ssize_max py_slice_indices py_range_len iterator ItEmpty ItIprange "
               "eui ever evalue edialect mk_eui existsb py_truthy src_contains_row string String py_str_from py_chars_in py_int_o "
               "py_bin py_except_pass replace starts_with str_len chars str_of "
               # constructors / constants of the Coq prelude: a pattern variable of that name would be read as the constructor
               "left right inl inr pair tt I conj eq_refl xH xO xI Z0 Zpos Zneg Lt Gt Eq ex_intro exist inleft inright "
               "Build_net AddrFormatError AddrConversionError ValueError TypeError IndexError KeyError StructError "
               "NotRegisteredError AttributeError OverflowError OutOfFuel Unsupported SAddr SOther".split())
ARITH = {ast.Add: "(%s + %s)", ast.Sub: "(%s - %s)", ast.Mult: "(%s * %s)", ast.BitAnd: "(Z.land %s %s)",
         ast.BitOr: "(Z.lor %s %s)", ast.BitXor: "(Z.lxor %s %s)", ast.LShift: "(Z.shiftl %s %s)",
         ast.RShift: "(Z.shiftr %s %s)", ast.FloorDiv: "(%s / %s)", ast.Mod: "(%s mod %s)", ast.Pow: "(%s ^ %s)"}
CMP = {ast.Lt: "(%s <? %s)", ast.LtE: "(%s <=? %s)", ast.Gt: "(%s >? %s)", ast.GtE: "(%s >=? %s)", ast.Eq: "(%s =? %s)",
       ast.NotEq: "(negb (%s =? %s))"}
COQTY = {"int": "Z", "bool": "bool", "tuple": "(list Z)", "obj": "(Z * Z)", "net": "net", "self": "Z", "sarg": "sarg",
         "operand": "operand", "unit": "unit", "optint": "(option Z)", "slice": "(option Z * option Z * option Z)",
         "iterator": "iterator", "eui": "eui", "dialect": "(Z * Z)", "optdialect": "(option (Z * Z))", "row": "(Z * Z * Z * Z)",
         "optbool": "(option bool)", "str": "string"}
# the kinds of an `operand` (SrcPrelude.operand), their fields and the class each one stands for
OPERAND = (("OAddr", ("ver", "v")), ("ONet", ("ver", "v", "p")), ("ORng", ("ver", "s", "e")), ("OOther", ()))
KINDCLASS = {"OAddr": "IPAddress", "ONet": "IPNetwork", "ORng": "IPRange"}
MUTATORS = ("append", "pop")
PURE_METHODS = ("subnet", "union")      # x.subnet(..) (IPNetwork: a generator over new objects), s.union(t) (a new set): x, s unchanged

# ---- SRCC: netaddr/fbsocket.py, netaddr/strategy/ipv4.py, ipv6.py and int_to_bits / bytes_to_bits of netaddr/strategy/__init__.py ----
# (all SRCC code lives in this block and in the block `SRCC: methods` at the end of the file; see the docstring paragraph SRCC)
SRCC_REQ = " Base.PyStr Model.SrcPreludeStr Model.SrcPreludeText"
SRCC_WORDFNS = {"words": "list int", "int_val": "int", "bits": "str", "bin_val": "str", "packed_int": "bytes"}
SRCC_UNITS = [
    # a second unit over netaddr/strategy/__init__.py (everything it does not list is the first one's): BYTES_TO_BITS is the table
    # regenerated by harness/gen/codec.py (Gen/codec_gen.v gen_bytes_to_bits = SrcPreludeText.py_BYTES_TO_BITS)
    ("netaddr/strategy/__init__.py", "pysrc_strategy_bits_gen.v", "strategy_", SRCC_REQ,
     [(None, "int_to_bits", {"int_val": "int", "word_size": "int", "num_words": "int", "word_sep": "str"}), (None, "bytes_to_bits", {})]),
    ("netaddr/fbsocket.py", "pysrc_fbsocket_gen.v", "fbsocket_", SRCC_REQ,
     [(None, f, {"packed_ip": "bytes", "tokens": "list str", "af": "int", "ip_string": "str", "token": "str"}) for f in (
         "inet_ntoa", "_is_hextet", "_inet_pton_af_inet", "_compact_ipv6_tokens", "inet_ntop", "inet_pton")]),
    ("netaddr/strategy/ipv4.py", "pysrc_ipv4_gen.v", "ipv4_", SRCC_REQ + " Gen.pysrc_gen",
     [(None, f, dict(SRCC_WORDFNS, word_sep="optstr")) for f in (
         "valid_words", "int_to_words", "words_to_int", "valid_bits", "bits_to_int", "int_to_bits", "valid_bin", "int_to_bin",
         "bin_to_int", "int_to_packed", "packed_to_int", "int_to_arpa")]),
    ("netaddr/strategy/ipv6.py", "pysrc_ipv6_gen.v", "ipv6_", SRCC_REQ + " Gen.pysrc_gen",
     [(None, f, dict(SRCC_WORDFNS, word_sep="optstr", num_words="optint", word_size="optint")) for f in (
         "valid_words", "int_to_words", "words_to_int", "valid_bits", "bits_to_int", "int_to_bits", "valid_bin", "int_to_bin",
         "bin_to_int", "int_to_packed", "packed_to_int")]),
]
SRCC_TEXTFNS = {"addr": "str", "flags": "int", "int_val": "int"}
SRCC_UNITS[2][4].extend([(None, "valid_str", SRCC_TEXTFNS), (None, "str_to_int", SRCC_TEXTFNS),
                         (None, "int_to_str", dict(SRCC_TEXTFNS, dialect="unit")), (None, "expand_partial_address", SRCC_TEXTFNS)])
SRCC_UNITS[3][4].extend([(None, "valid_str", SRCC_TEXTFNS), (None, "str_to_int", SRCC_TEXTFNS),
                         (None, "int_to_str", dict(SRCC_TEXTFNS, dialect="optcls6")), (None, "int_to_arpa", SRCC_TEXTFNS)])
# the socket functions that ipv4.py / ipv6.py bind at import time, from `socket` on the platform path and from netaddr.fbsocket on
# the fallback path: module-level name -> (real name, {address family name or None: (prelude symbol, takes the back-end?)})
SRCC_SOCKET = {"_inet_aton": ("inet_aton", {None: ("py_inet_aton", False)}),
               "_inet_pton": ("inet_pton", {"AF_INET": ("py_inet_pton4", True), "AF_INET6": ("py_inet_pton6", True)}),
               "_inet_ntop": ("inet_ntop", {"AF_INET6": ("py_inet_ntop6", True)})}
SRCC_SOCKET_MODULES = ("socket", "_socket", "netaddr.fbsocket")
COMPAT["_str_type"] = ("str", "basestring")
UNITS += SRCC_UNITS
FILES = FILES + tuple(u[1] for u in SRCC_UNITS)
SRCC_OUT = tuple(u[1] for u in SRCC_UNITS)
UNIT_TABLES["pysrc_strategy_bits_gen.v"] = {"BYTES_TO_BITS": "list str"}
SRCC_TABLE_TERM = {"BYTES_TO_BITS": "py_BYTES_TO_BITS"}      # Coq name of a table of UNIT_TABLES where it differs from the Python name
# module constants that harness/gen/pysrc.py constants() already regenerates into Gen/pysrc_gen.v
SRCC_SHARED_CONSTS = {("ipv4_", "width"), ("ipv4_", "version"), ("ipv4_", "max_int"), ("ipv6_", "width"), ("ipv6_", "version"), ("ipv6_", "max_int")}
# functions that return a tuple of ints where their callers (and the model) see a word sequence: the tuple is the list
FUEL[(None, "int_to_bits", 2)] = ("word_size", 2)        # Codec.word_bytes_loop runs with Z.to_nat word_size + 1 and tests `word` first
COQTY.update({"bytes": "(list Z)", "optstr": "(option string)", "cls6": "(string * bool)", "optcls6": "(option (string * bool))"})
RESERVED |= set("py_struct_pack py_struct_unpack py_seq_item py_list_item py_opt_default py_map_o py_clamp py_slice py_str_slice "
                "py_str_or py_str_mul py_bytes_mul py_encode py_bytes_join py_str_in py_list_of_str py_split py_int_base_o py_fmt_x4 "
                "py_insert0 py_except_all py_except_value join split fmt_d fmt_x chars length concat firstn skipn nth_error "
                "py_BYTES_TO_BITS py_backend be py_inet_aton py_inet_pton4 py_inet_pton6 py_inet_ntop6 py_format1 py_split_dc py_contains_dc "
                "contains_char py_sort_asc py_sort_optkey py_ins_asc py_range py_list_set py_join_opt".split())
# ---- SRCF: the remaining functions of netaddr/strategy/eui48.py, eui64.py and of class EUI (second units over those files; the
# constructs they need are in class FnF below, named here through FN_CLASS).  Parameter types: `optedialect` = None or a dialect
# class seen as the record (word_size, num_words, word_sep, word_fmt) (Model/SrcPreludeEui2.v dialect_t), `edialect` = such a record,
# `optstr` = None or text, `list int` for a bytes object (its byte values), `eui` = an EUI object, `darg` = the argument of
# _validate_dialect (Model/Eui.v darg: None | a class with word_size and word_fmt | any other object).  The pseudo-parameter
# "self._dialect" makes the receiver's _dialect attribute a leading parameter of the method.
SRCF_REQ = " Base.PyStr Model.SrcPreludeStr Model.Eui Model.SrcPreludeEui Model.SrcPreludeEui2 Gen.pysrc_eui_gen"
SRCF_STRATEGY_FUNCS = [
    (None, "int_to_packed", {"int_val": "int"}), (None, "packed_to_int", {"packed_int": "list int"}),
    (None, "valid_bits", {"bits": "str", "dialect": "optedialect"}), (None, "bits_to_int", {"bits": "str", "dialect": "optedialect"}),
    (None, "int_to_bits", {"int_val": "int", "dialect": "optedialect", "word_sep": "optstr"}),
    (None, "valid_bin", {"bin_val": "str", "dialect": "optedialect"}), (None, "int_to_bin", {"int_val": "int"}),
    (None, "bin_to_int", {"bin_val": "str"}), (None, "int_to_str", {"int_val": "int", "dialect": "optedialect"})]
SRCF_STRATEGY_FUNCS48 = [(None, "valid_str", {"addr": "str"}), (None, "str_to_int", {"addr": "str"}), (None, "str_to_int:int", {"addr": "int"})]
SRCF_STRATEGY_FUNCS64 = [(None, "_get_match_result", {"address": "str", "formats": "list pat"}),
                         (None, "valid_str", {"addr": "str"}), (None, "str_to_int", {"addr": "str"}),
                         (None, "_get_match_result:int", {"address": "int", "formats": "list pat"}), (None, "str_to_int:int", {"addr": "int"})]
# the compiled regular expressions: module-level list -> the hand-compiled matchers of Model/Eui.v (Proofs/GenOk_C08.v proves that
# the regenerated pattern strings of the source are the renderings of exactly these matchers, in order, flags IGNORECASE|UNICODE)
SRCF_TABLES = {"eui48_": {"RE_MAC_FORMATS": "mac_pats"}, "eui64_": {"RE_EUI64_FORMATS": "eui64_pats"}}
SRCF_UNITS = [
    ("netaddr/strategy/eui48.py", "pysrc_eui48b_gen.v", "eui48_", SRCF_REQ, SRCF_STRATEGY_FUNCS + SRCF_STRATEGY_FUNCS48),
    ("netaddr/strategy/eui64.py", "pysrc_eui64b_gen.v", "eui64_", SRCF_REQ, SRCF_STRATEGY_FUNCS + SRCF_STRATEGY_FUNCS64),
    ("netaddr/eui/__init__.py", "pysrc_euib_gen.v", "", SRCF_REQ + " Gen.pysrc_eui48b_gen Gen.pysrc_eui64b_gen", [
        ("EUI", "words", {}), ("EUI", "packed", {}), ("EUI", "bin", {}), ("EUI", "bits", {"word_sep": "optstr"}),
        ("EUI", "ei", {}), ("EUI", "iab", {}),
        ("EUI", "__getitem__:int", {"idx": "int", "self._dialect": "edialect"}),
        ("EUI", "__setitem__", {"idx": "int", "value": "int", "self._dialect": "edialect"}),
        ("EUI", "__hash__", {})] + [("EUI", m, {"other": "eui"}) for m in ("__eq__", "__ne__", "__lt__", "__le__", "__gt__", "__ge__")] + [
        ("EUI", "_validate_dialect", {"value": "darg"}), ("EUI", "_set_dialect", {"value": "darg"}),
        ("EUI", "dialect", {"self._dialect": "edialect"}), ("EUI", "format", {"dialect": "darg"}),
        ("EUI", "__str__", {"self._dialect": "edialect"}), ("EUI", "__getstate__", {"self._dialect": "edialect"}),
    ] + [("EUI", "_set_value:%s_%s" % (m, t), {"value": t, "self.*": "state"}) for m in ("implicit", "eui48", "eui64") for t in ("str", "int")] + [
        ("EUI", "__init__:%s" % t, {"addr": t, "version": "optint", "dialect": "darg", "self.*": "state"}) for t in ("int", "str", "eui")] + [
        ("EUI", "__setstate__", {"state": "tup:int,int,darg", "self.*": "state"}), ("IAB", "split_iab_mac", {"strict": "bool"}),
        ("EUI", "__index__", {}), ("EUI", "__long__", {}),
    ]),
]
# netaddr/eui/ieee.py (property C19): the two index parsers.  The pseudo-parameter "self.fh" makes the file object the parser reads
# two leading parameters (its remaining lines, the position tell() answers) and the rows handed to self.notify() the result;
# a name declared with a type here that is not a parameter is a local variable of that type (`optintlist` = None or a list of ints).
SRCF_UNITS.append(("netaddr/eui/ieee.py", "pysrc_ieee_gen.v", "", " Base.PyStr Model.SrcPreludeStr Model.Ieee Model.SrcPreludeIeee", [
    ("OUIIndexParser", "parse", {"self.fh": "file", "record": "optintlist"}),
    ("IABIndexParser", "parse", {"self.fh": "file", "record": "optbilist"})]))
# the record classes OUI / IAB of netaddr/eui/__init__.py (property C19): a unit of its own (it needs Model/Ieee.v, not Model/Eui.v).
# "dict:<name>" declares a dict with constant string keys, held in the local / attribute <name>: it is translated as one variable
# per key (<name>__<key>); `self.records.append(r)` as the last statement = the method answers r; a method of IAB that assigns
# self.record[..] answers the new record.
SRCF_UNITS.append(("netaddr/eui/__init__.py", "pysrc_euic_gen.v", "",
                   " Base.PyStr Model.SrcPreludeStr Model.SrcPreludeEui2 Model.Ieee Model.SrcPreludeIeee", [
    ("OUI", "__str__", {}), ("IAB", "__str__", {}),
    ("OUI", "_parse_data", {"data": "str", "offset": "int", "size": "int", "dict:record": "idx,oui,org,address,offset,size"}),
    ("IAB", "_parse_data", {"data": "str", "offset": "int", "size": "int",
                            "dict:self.record": "idx:int,iab:str,org:str,address:list str,offset:int,size:int"})]))
STATE["OUI"] = ("v",)
STATE["OUIIndexParser"] = STATE["IABIndexParser"] = ()
UNIT_PREAMBLE["pysrc_euic_gen.v"] = ("(* Model/Ieee.v leaves string_scope open: `++` below is list concatenation *)\n"
                                      "Open Scope list_scope.\nOpen Scope Z_scope.\n")
UNIT_PREAMBLE["pysrc_ieee_gen.v"] = ("(* Model/Ieee.v leaves string_scope open: `++` below is list concatenation *)\n"
                                      "Open Scope list_scope.\nOpen Scope Z_scope.\n")
FUEL[("OUIIndexParser", "parse", 1)] = ("len(self_fh_lines)", 1)       # one line per iteration, one more to see the end of the file
FUEL[("IABIndexParser", "parse", 1)] = ("len(self_fh_lines)", 1)
UNITS += SRCF_UNITS
FILES = FILES + tuple(u[1] for u in SRCF_UNITS)
STATE["IAB"] = ("v",)
COQTY.update({"edialect": "dialect_t", "optedialect": "(option dialect_t)", "optstr": "(option string)", "darg": "darg"})
SRCF_VALUE_TYPES = ("edialect", "optedialect", "optstr", "darg", "pat", "matches", "optgroups", "optintlist", "bi", "optbilist")
COQTY.update({"optintlist": "(option (list Z))", "bi": "bi", "optbilist": "(option (list bi))"})
COQTY.update({"pat": "pat", "matches": "(option (list string))", "optgroups": "(option (list string))"})
# netaddr.strategy.int_to_bits is not translated (nested while inside for): the call is its hand model (SrcPreludeEui2.py_int_to_bits)
EXTERN["netaddr.strategy.int_to_bits"] = ("py_int_to_bits", ("int", "int", "int", "str"), "str")
# names the generated text of these units uses as symbols: a Python local of that name gets a trailing underscore
SRCF_RESERVED = set("dialect_t mk_dialect d_word_size d_num_words d_word_sep d_word_fmt d_pair py_struct_pack py_struct_unpack "
                    "py_int_to_bits py_getitem_o py_setitem_o py_slice_lit py_fmt_int py_fmt_ints py_map_o py_hash_pair join map "
                    "dialect darg DNone DRec DBad word_size num_words word_sep word_fmt pat mac_pats eui64_pats py_findall "
                    "py_matches_len py_found py_match0 py_is_tuple py_group_str py_optgroups_truthy py_readline py_bytes_in "
                    "py_bytes_split0 py_bytes_split_sep0 py_int16_bytes py_bytes_truthy bi BiB BiI bi_bytes blen contains "
                    "py_str_split_nl py_str_strip py_str_field3 strip".split())
BY_FILE = {}        # (SRCF) source file -> all translators made for it, in unit order (filled by generate())
FN_CLASS = {}       # (SRCF) output file -> the subclass of Fn that translates that unit's functions
PURE_METHODS = PURE_METHODS + ("findall",)         # <compiled pattern>.findall(text) does not change the pattern object
MODULE_HOOK = {}    # (SRCF) output file -> function applied to the parsed Module of that unit before anything is translated
SRCF_STRUCT_SIZES = {"B": 1, "H": 2, "I": 4}       # struct format characters (big-endian, standard sizes) -> bytes per field

# ---- SRCB: netaddr/ip/glob.py, nmap.py, rfc1924.py -- text functions, translated by class FnB (below class Fn) -----------
# (all of this block is trusted translator input, like the tables above)
SRCB_UNITS = [
    ("netaddr/ip/glob.py", "pysrc_glob_gen.v", "", " Base.PyStr Model.SrcPreludeStr Model.SrcPreludeGlob",
     [(None, "_octet_value", {"token": "str"}), (None, "valid_glob", {"ipglob": "str"}),
      (None, "glob_to_iptuple", {"ipglob": "str"}), (None, "glob_to_iprange", {"ipglob": "str"}),
      (None, "iprange_to_globs._iprange_to_glob", {"lb": "addr", "ub": "addr"}),
      (None, "iprange_to_globs", {"start": "addr", "end": "addr"}),
      (None, "glob_to_cidrs", {"ipglob": "str"}), (None, "cidr_to_glob", {"cidr": "net"})]),
    ("netaddr/ip/nmap.py", "pysrc_nmap_gen.v", "", " Base.PyStr Model.SrcPreludeStr Model.SrcPreludeGlob Model.SrcPreludeNmap",
     [(None, "_nmap_octet_target_values", {"spec": "str"}), (None, "_generate_nmap_octet_ranges", {"nmap_target_spec": "str"}),
      (None, "_parse_nmap_target_spec", {"target_spec": "str"}), (None, "valid_nmap_range", {"target_spec": "str"}),
      (None, "iter_nmap_range", {"nmap_target_spec": "list str"})]),
    ("netaddr/ip/rfc1924.py", "pysrc_rfc1924_gen.v", "", " Base.PyStr Model.SrcPreludeStr Model.SrcPreludeGlob Model.SrcPreludeB85",
     [(None, "chr_range", {"low": "char", "high": "char"}), (None, "ipv6_to_base85", {"addr": "int"}),
      (None, "base85_to_ipv6", {"addr": "str"})]),
]
UNITS += SRCB_UNITS
FILES = FILES + tuple(u[1] for u in SRCB_UNITS)
# the units whose functions are translated by FnB (filled after the class definition)
UNIT_FNCLASS = {}
# every translator by its output file (None: the first one); lets a unit use a definition of another unit over another file:
# BY_OUT (defined above, filled by Translator.__init__)
# definitions a FnB unit may use from another unit: (receiver, name) -> that unit's output file
SRCB_IN_UNIT = {("IPNetwork", "__getitem__:int"): "pysrc_listlike_gen.v"}
# imported functions that apply IPNetwork(x) to their arguments first thing (their parameters are declared `net` in FUNCS):
# an IPAddress object passed to them is the host network /width (SrcPreludeGlob.py_net_of_addr)
SRCB_ADDR_AS_NET = ("netaddr.ip.iprange_to_cidrs",)
# value types of FnB: `addr` = an IPAddress object (version, value); `rng` = an IPRange object (version, start, end);
# `char` = one character of a str
SRCB_VALUES = ("addr", "rng", "char")
COQTY.update({"addr": "(Z * Z)", "rng": "(Z * Z * Z)", "char": "ascii"})
SRCB_RESERVED = set("split split1 join contains_char fmt_d chars str_of py_index py_unpack2 py_map_o py_zrange py_zseq "
                    "py_sorted_asc py_ins_asc py_str_nonempty py_str_head_is py_str_times py_str_list py_try "
                    "py_ipaddress_of_str py_iprange_of_strs py_addr_str py_net_of_addr py_set_add map existsb forallb "
                    "length ascii code chr len strip lower append py_int".split())
SRCB_PURE_METHODS = ("split", "join")      # s.split(c) / sep.join(l): new values, s and sep unchanged -- while a FnB unit is being
# translated only (PURE_EXTRA, pushed by Translator.get): the other units' generated loops / joins carry such a receiver, and the
# proofs refer to that shape
# the address parsers a unit reaches with TEXT arguments are not translated: (class, argument kinds) -> symbol.  For nmap.py
# IPAddress(text) and the IPv6 half of IPNetwork(text) are the Section variables of Model/Nmap.v (platform functions, property C01):
# the generated file declares the same two variables (UNIT_PREAMBLE / UNIT_POSTAMBLE) and its definitions take them as parameters
SRCB_CTOR = {"pysrc_glob_gen.v": {("IPAddress", "str"): "py_ipaddress_of_str", ("IPRange", "str", "str"): "py_iprange_of_strs"},
             "pysrc_nmap_gen.v": {("IPAddress", "str"): "ip_address", ("IPAddress", "str", "4"): "py_ipaddress4_of_str",
                                  ("IPNetwork", "str"): "py_ipnetwork_of_str pton6"}}
SRCB_CTOR["pysrc_rfc1924_gen.v"] = {("IPAddress", "int"): "py_ipaddress_of_int"}      # IPAddress(n): version inferred (Ip.addr_of_int)
SRCB_CTOR_KIND = {"IPAddress": "addr", "IPRange": "rng", "IPNetwork": "net"}
# str(ip) for an IPAddress object: hand model for IPv4 (py_addr_str); for rfc1924.py (IPv6 text, property C01) a parameter
SRCB_ADDR_STR = {"pysrc_rfc1924_gen.v": ("str", "(addr_str %s)")}
# module-level tables whose VALUES harness/gen/codec.py regenerates (Gen/codec_gen.v) and checks against each other:
# BASE_85 as the list of its one-character strings, BASE_85_DICT[k] as a lookup function (KeyError)
UNIT_TABLES["pysrc_rfc1924_gen.v"] = {"BASE_85": "list str"}
SRCB_DICTS = {"pysrc_rfc1924_gen.v": {"BASE_85_DICT": ("str", "int", "py_b85_dict_get")}}
UNIT_PREAMBLE["pysrc_rfc1924_gen.v"] = (
    "(* str(ip) of the IPv6 IPAddress object base85_to_ipv6 returns: the address formatter (property C01), a parameter *)\n"
    "Section WithFormatter.\nVariable addr_str : Z * Z -> string.\n")
# the hand model runs `while int_val > 0` 20 times at most and tests the condition before the fuel; the generated Fixpoint tests
# the fuel first, so it needs one more unit to see the condition fail
FUEL[(None, "ipv6_to_base85", 1)] = ("0", 21)
SRCB_RESERVED |= set("addr_str BASE_85 py_b85_dict_get py_chr_o py_ipaddress_of_int".split())
# the IPGlob class (netaddr/ip/glob.py): object state (_start, _end: IPAddress objects; _glob: a str, or unset = None) read and
# written like locals (STATEVARS); `__init__` / `__setstate__` are CONSTRUCTORS: they start from an object whose slots are unset
# (no state parameters; _glob = None, _start / _end unbound until assigned) and return the state they build.
# `super(IPGlob, self).m(..)` is NOT translated: the IPRange methods become hand-model symbols (SrcPreludeGlob):
# (class, m) -> (symbol, state attributes it assigns, state attributes passed in front of the arguments, result type)
STATEVARS["IPGlob"] = (("_start", "addr"), ("_end", "addr"), ("_glob", "optstr"))
STATE["IPGlob"] = ()
SRCB_UNITS[0][4].extend([("IPGlob", m, t) for m, t in (
    ("_get_glob", {}), ("_set_glob", {"ipglob": "str"}), ("__str__", {}), ("__getstate__", {}),
    ("__init__", {"ipglob": "str"}), ("__setstate__", {"state": "istate"}))])
SRCB_CONSTRUCTORS = ("__init__", "__setstate__")
SRCB_SUPER = {("IPGlob", "__init__"): ("py_iprange_init", ("_start", "_end"), (), ("tup", ("addr", "addr"))),
              ("IPGlob", "__setstate__"): ("py_iprange_setstate", ("_start", "_end"), (), ("tup", ("addr", "addr"))),
              ("IPGlob", "__getstate__"): ("py_iprange_getstate", (), ("_start", "_end"), "istate")}
SRCB_VALUES = SRCB_VALUES + ("optstr", "istate")     # `optstr` = a slot holding a str, or unset; `istate` = IPRange.__getstate__()
COQTY.update({"optstr": "(option string)", "istate": "(Z * Z * Z)"})
SRCB_RESERVED |= set("py_iprange_init py_iprange_setstate py_iprange_getstate py_attr_get".split())
UNIT_PREAMBLE["pysrc_nmap_gen.v"] = (
    "(* the platform parsers nmap.py reaches through IPAddress(text) / IPNetwork(text): parameters, as in Model/Nmap.v *)\n"
    "Section WithPlatform.\nVariable pton6 : string -> option Z.\nVariable ip_address : string -> outcome (Z * Z).\n")
UNIT_POSTAMBLE = {"pysrc_nmap_gen.v": "\nEnd WithPlatform.\n", "pysrc_rfc1924_gen.v": "\nEnd WithFormatter.\n"}
SRCB_VALUES = SRCB_VALUES + ("oaddr",)               # `oaddr` = what a generator of IPAddress objects yields: outcome (Z * Z)
COQTY["oaddr"] = "(outcome (Z * Z))"
SRCB_RESERVED |= set("pton6 ip_address py_ipaddress4_of_str py_ipnetwork_of_str py_iter_net py_gen_body py_gen_next yielded".split())

# ---- SRCA: netaddr/ip/sets.py (IPSet; checks C07 and C06).  Tables of the sets units; the code is the block `SRCA` after class Translator.
SETSFILE = "netaddr/ip/sets.py"
SETS_REQ = " Model.PySlice Model.SrcPreludeSplitter Model.SrcPreludeSets"
# three units over the same file, in dependency order: queries (C07), two-cursor sweeps (C07), mutators (C06).  A unit may call
# the definitions of the units before it.  An IPSet parameter (`ipset`) is an already constructed IPSet object = its state.
SETS_UNITS = [
    (SETSFILE, "pysrc_sets_gen.v", "sets", SETS_REQ,
     [("IPSet", "__init__:none", {"iterable": "none"})] +
     [("IPSet", m, {}) for m in ("iter_cidrs", "__nonzero__", "size", "__len__", "iscontiguous", "iprange", "clear", "copy")] +
     [("IPSet", "__contains__", {"ip": "net"})] +
     [("IPSet", m, {"other": "ipset"}) for m in ("issubset", "issuperset", "__lt__", "__gt__", "__eq__", "__ne__")]),
    (SETSFILE, "pysrc_sets_ops_gen.v", "sets", SETS_REQ,
     [(None, "_subtract", {"supernet": "net", "subnets": "list net", "subnet_idx": "int", "ranges": "list rng"}),
      (None, "_iter_merged_ranges", {"sorted_ranges": "list rng"})] +
     [("IPSet", m, {"other": "ipset"}) for m in ("intersection", "isdisjoint", "difference", "symmetric_difference")] +
     [("IPSet", "iter_ipranges", {})]),
    (SETSFILE, "pysrc_sets_mut_gen.v", "sets", SETS_REQ,
     [("IPSet", "compact", {}), ("IPSet", "pop", {}), ("IPSet", "update:ipset", {"iterable": "ipset"}), ("IPSet", "union", {"other": "ipset"})]),
    # add / remove of an IPNetwork object; _compact_single_network changes its parameter (SETS_MUTABLE_PARAMS)
    (SETSFILE, "pysrc_sets_add_gen.v", "sets", SETS_REQ,
     [("IPSet", "_compact_single_network", {"added_network": "net"}), ("IPSet", "add:net", {"addr": "net"}),
      ("IPSet", "remove:net", {"addr": "net"})]),
    # the other argument forms that need no parsing: an IPRange object (`iprange` = (version, start value, end value)), a list of
    # IPNetwork objects, None
    (SETSFILE, "pysrc_sets_bulk_gen.v", "sets", SETS_REQ,
     [("IPSet", "add:iprange", {"addr": "iprange"}), ("IPSet", "remove:iprange", {"addr": "iprange"}),
      ("IPSet", "update:net", {"iterable": "net"}), ("IPSet", "update:iprange", {"iterable": "iprange"}),
      ("IPSet", "update:list", {"iterable": "list net"})] +
     [("IPSet", "__init__:" + t.split()[0], {"iterable": t}) for t in ("net", "iprange", "ipset", "list net")]),
]
# IPNetwork.__getstate__ (netaddr/ip/__init__.py) for IPSet.__getstate__: the definition of the SRCD unit pysrc_ctor_gen.v, which
# comes before the sets units (in SRCA's own clone it was a unit of its own, pysrc_sets_ip_gen.v, with the same generated text)
SETS_IP_UNIT = (IPFILE, "pysrc_ctor_gen.v", "", "", [("IPNetwork", "__getstate__", {})])
SETS_UNITS.append(
    (SETSFILE, "pysrc_sets_state_gen.v", "sets", SETS_REQ, [("IPSet", "__getstate__", {}), ("IPSet", "__setstate__", {"state": "list rng"})]))
UNITS += SETS_UNITS
FILES = FILES + tuple(u[1] for u in SETS_UNITS)
SETS_FILES = tuple(u[1] for u in SETS_UNITS)
STATE["IPSet"] = ()
STATEVARS["IPSet"] = (("_cidrs", "dict"),)          # the dict `_cidrs` (IPNetwork keys, values True) = the list of its keys
COQTY.update({"dict": "(list net)", "ipset": "(list net)", "iprange": "(Z * Z * Z)", "none": "unit"})
SETS_VALUE_TYPES = ("dict", "ipset", "iprange", "tuple")
HASATTR[("ipset", "_cidrs")] = True
for _u in SETS_FILES:
    UNIT_NAMES[_u] = {"_sys_maxint": ("int", "ssize_max")}
# fuel of the while loops of sets.py (the hand model's: Sets.contains_walk runs on Z.to_nat prefixlen + 1)
# (written over parameters and the state only, so that renaming a local does not break the translation)
FUEL[("IPSet", "__contains__", 1)] = ("ip._prefixlen", 1)
FUEL[(None, "_subtract", 1)] = ("len(subnets)", 1)
for _m in ("intersection", "difference", "symmetric_difference"):       # Sets.inter_loop / diff_loop / symdiff_loop: length a + length b + 1
    FUEL[("IPSet", _m, 1)] = ("len(self_cidrs) + len(other._cidrs)", 1)
FUEL[("IPSet", "difference", 2)] = ("len(self_cidrs)", 1)
FUEL[("IPSet", "symmetric_difference", 2)] = ("len(self_cidrs)", 1)
FUEL[("IPSet", "symmetric_difference", 3)] = ("len(other._cidrs)", 1)
# a list parameter that the function appends to and the caller reads afterwards: function -> index of that parameter; the function
# returns (that list, its value), the call `x = f(.., l)` is `l, x = f(.., l)`
SETS_OUTPARAM = {"_subtract": 3}
FUEL[("IPSet", "_compact_single_network", 4)] = ("added_network.prefixlen", 1)      # Sets.merge_up: Z.to_nat (nplen added) + 1
# an IPNetwork parameter that the method changes in place (`x.prefixlen -= 1`, `x._value = e`): the method is translated with a
# local copy; every caller must not read its argument after the call (checked at the call), and the object must be out of every
# dict when it is changed (checked: `del d[x]` precedes the attribute assignments in their block)
SETS_MUTABLE_PARAMS = {("IPSet", "_compact_single_network"): "added_network"}
RESERVED |= set("py_dict_mem py_dict_set py_dict_del py_dict_fromkeys py_dict_update py_dict_eqb py_dict_popitem py_sorted_nets "
                "py_net_ltb py_index py_list_from py_sum py_cidr_merge_nets py_iprange py_net_of_addr py_net_previous py_net_next py_map_o".split())


MESSAGE_BUILTINS = ("hex", "str", "type", "repr", "len")
# ast.dump (docstring removed) of `def _arg_repr(value)` of netaddr/ip/__init__.py: repr(value), or hex(value) / object.__repr__(value)
# when repr raises ValueError
ARG_REPR_DUMP = ("FunctionDef(name='_arg_repr', args=arguments(posonlyargs=[], args=[arg(arg='value')], kwonlyargs=[], kw_defaults=[], "
                 "defaults=[]), body=[Try(body=[Return(value=Call(func=Name(id='repr', ctx=Load()), args=[Name(id='value', ctx=Load())], "
                 "keywords=[]))], handlers=[ExceptHandler(type=Name(id='ValueError', ctx=Load()), body=[If(test=Call(func=Name(id='isinstance', "
                 "ctx=Load()), args=[Name(id='value', ctx=Load()), Name(id='_int_type', ctx=Load())], keywords=[]), body=[Return(value=Call("
                 "func=Name(id='hex', ctx=Load()), args=[Name(id='value', ctx=Load())], keywords=[]))], orelse=[]), Return(value=Call(func="
                 "Attribute(value=Name(id='object', ctx=Load()), attr='__repr__', ctx=Load()), args=[Name(id='value', ctx=Load())], keywords=[]))])], "
                 "orelse=[], finalbody=[])], decorator_list=[])")


def arg_repr_ok(mod, node):
    tree = mod.tree
    binds = [n for n in ast.walk(tree) if (isinstance(n, (ast.FunctionDef, ast.ClassDef)) and n.name == "_arg_repr")
             or (isinstance(n, ast.Name) and n.id == "_arg_repr" and isinstance(n.ctx, (ast.Store, ast.Del)))
             or (isinstance(n, ast.alias) and (n.asname or n.name) == "_arg_repr")]
    if len(binds) != 1 or binds[0] not in tree.body or not isinstance(binds[0], ast.FunctionDef):
        bad(node, "_arg_repr is not bound exactly once, by a plain top-level def")
    f = binds[0]
    body = f.body[1:] if (f.body and isinstance(f.body[0], ast.Expr) and isinstance(f.body[0].value, ast.Constant)
                          and isinstance(f.body[0].value.value, str)) else f.body
    g = ast.FunctionDef(name=f.name, args=f.args, body=body, decorator_list=f.decorator_list, returns=None, type_comment=None)
    d = ast.dump(g)
    d = d.replace(", returns=None", "").replace(", type_comment=None", "")
    if d != ARG_REPR_DUMP:
        bad(node, "_arg_repr is not the pinned definition (repr, else hex / object.__repr__ on ValueError)")
    return True


class Untranslatable(Exception):
    pass


class NoJoin(Exception):
    """an `if` that cannot be written as a join of its assigned locals: translated by duplicating the continuation"""


CURFILE = [IPFILE]      # the source file being translated (innermost last): names the file in every Untranslatable message


def bad(node, why, fn=None):
    raise Untranslatable("%s:%s: %s" % (fn or CURFILE[-1], getattr(node, "lineno", "?"), why))


def mangle(recv, name, prefix=""):
    name, _, variant = name.partition(":")          # "method:variant" = a specialisation of the method (see UNITS)
    name = name.replace(".", "_")                    # "outer.inner" = a function defined inside `outer` (SRCB)
    return ("src_%s_%s" % (recv, name.strip("_").replace(".", "_")) if recv else "src_%s%s" % (prefix, name.replace(".", "_"))) + ("_" + variant if variant else "")


def dotted(node):
    parts = []
    while isinstance(node, ast.Attribute):
        parts.append(node.attr)
        node = node.value
    return ".".join([node.id] + parts[::-1]) if isinstance(node, ast.Name) else None


def literal(node, text):
    seg = ast.get_source_segment(text, node) or ""
    s = ("0x%x" if seg[:2].lower() == "0x" else "%d") % node.value
    return s if node.value >= 0 else "(%s)" % s


def const_int(node):
    """the value of an integer literal (possibly negated), else None"""
    if isinstance(node, ast.UnaryOp) and isinstance(node.op, ast.USub):
        v = const_int(node.operand)
        return None if v is None else -v
    if isinstance(node, ast.Constant) and isinstance(node.value, int) and not isinstance(node.value, bool):
        return node.value
    return None


def in_order(found):
    """names of (line, column, name) triples in source order, each once"""
    out = []
    for _, _, x in sorted(found):
        if x not in out:
            out.append(x)
    return out


# item assignment `x[k] = e` counts as a rebinding of x in SOURCE ORDER only while a unit of class FnF (SRCF) is being translated
# (Translator.get pushes the flag); the SRCE and SRCC units count it through their own wrappers of assigned_names (appended after the
# other names), and the order of the names is the parameter order of the generated loop Fixpoints that their proofs refer to
SUBSCRIPT_STORE_IN_ORDER = [False]
PURE_EXTRA = [()]      # further method names that do not mutate their receiver, for the unit being translated (SRCB: FnB units)


def assigned_names(stmts):
    """local names (re)bound or mutated by the statements: assignment / loop targets, l.append, l.pop, _iter_next(it)"""
    found = []
    for st in stmts:
        for n in ast.walk(st):
            if isinstance(n, ast.Name) and isinstance(n.ctx, ast.Store):
                found.append((n.lineno, n.col_offset, n.id))
            elif isinstance(n, ast.Attribute) and isinstance(n.ctx, ast.Store) and isinstance(n.value, ast.Name):
                found.append((n.lineno, n.col_offset, n.value.id))             # x._prefixlen = e rebinds the local object x
            elif (SUBSCRIPT_STORE_IN_ORDER[-1] and isinstance(n, ast.Subscript) and isinstance(n.ctx, ast.Store)
                  and isinstance(n.value, ast.Name)):
                found.append((n.lineno, n.col_offset, n.value.id))             # (SRCF units only) x[k] = e rebinds the local list x
            elif (isinstance(n, ast.Call) and isinstance(n.func, ast.Attribute) and isinstance(n.func.value, ast.Name)
                  and n.func.attr not in PURE_METHODS and n.func.attr not in PURE_EXTRA[-1]):
                found.append((n.lineno, n.col_offset, n.func.value.id))        # any other method call on a name may mutate it
            elif isinstance(n, ast.Call) and dotted(n.func) == "_iter_next" and n.args and isinstance(n.args[0], ast.Name):
                found.append((n.lineno, n.col_offset, n.args[0].id))
    return in_order(found)


def loaded_names(nodes):
    return in_order([(n.lineno, n.col_offset, n.id) for st in nodes for n in ast.walk(st)
                     if isinstance(n, ast.Name) and isinstance(n.ctx, ast.Load)])


# ---- types: "int" "bool" "net" "obj" "none" "cls" "sarg" "operand" | ("list", Cell) | ("iter", Cell) | ("tup", types)
#             | ("seq",) a never-mutated list literal (env only) | ("opnd", kind, {field: name}) a refined operand (env only)
class Cell:
    """element type of a list, found by unification (`left = []` learns it from the first append)"""

    def __init__(self, t=None):
        self.t, self.link = t, None

    def find(self):
        c = self
        while c.link is not None:
            c = c.link
        return c


def is_list(t):
    return isinstance(t, tuple) and t[0] == "list"


def is_set(t):
    return isinstance(t, tuple) and t[0] == "set"


def is_value(t):
    """types whose terms are first-class Coq values that a loop or a join can carry"""
    return t in ("int", "bool", "net", "optint", "iterator", "eui", "dialect", "optdialect", "row", "optbool", "str") or (isinstance(t, tuple) and t[0] in ("list", "tup", "set"))


def parse_type(s):
    return ("list", Cell(s[5:])) if s.startswith("list ") else ("set", Cell(s[4:])) if s.startswith("set ") else s


_srcb_is_value = is_value


def is_value(t):     # SRCB: the value types of FnB are first-class Coq values as well
    return t in SRCB_VALUES or _srcb_is_value(t)


def show(t):
    if isinstance(t, str):
        return t
    if t[0] in ("list", "iter", "set"):
        return "%s of %s" % (t[0], show(t[1].find().t or "?"))
    if t[0] == "tup":
        return "tuple (%s)" % ", ".join(show(x) for x in t[1])
    return t[0]


def coqty(t, node=None):
    if isinstance(t, str):
        return COQTY[t]
    if t[0] in ("list", "iter", "set"):      # a set is the list of its elements in an unspecified order, without duplicates
        e = t[1].find().t
        if e is None:
            bad(node, "list whose element type is never determined")
        return "(list %s)" % coqty(e, node)
    if t[0] == "tup":
        return "(%s)" % " * ".join(coqty(x, node) for x in t[1])
    bad(node, "%s where a Coq value is needed" % show(t))


def unify(node, a, b, what):
    if isinstance(a, str) or isinstance(b, str) or a[0] != b[0]:
        if a != b:
            bad(node, "%s: %s where %s is expected" % (what, show(a), show(b)))
    elif a[0] in ("list", "iter", "set"):
        ca, cb = a[1].find(), b[1].find()
        if ca is cb:
            return
        if ca.t is None:
            ca.link = cb
        elif cb.t is None:
            cb.link = ca
        else:
            unify(node, ca.t, cb.t, what)
    elif a[0] == "tup" and len(a[1]) == len(b[1]):
        for x, y in zip(a[1], b[1]):
            unify(node, x, y, what)
    else:
        bad(node, "%s: %s where %s is expected" % (what, show(a), show(b)))


def tuple_term(terms):
    return "tt" if not terms else terms[0] if len(terms) == 1 else "(%s)" % ", ".join(terms)


def tuple_type(types):
    return "unit" if not types else types[0] if len(types) == 1 else ("tup", tuple(types))


def pattern(names):
    return "_" if not names else names[0] if len(names) == 1 else "(%s)" % ", ".join(names)    # in a let: '(a, b)


def unparen(s):
    return re.sub(r"^\((.*)\)$", r"\1", s)


def compat_ok(name):
    """is `name` bound in netaddr/compat.py only by assignments of the expressions COMPAT lists for it?  (trusted reading:
    _sys_maxint = sys.maxsize, _iter_range = range)"""
    fn = "netaddr/compat.py"
    text = open(os.path.join(REPO, fn), encoding="utf-8").read()
    binds = [n for n in ast.walk(ast.parse(text)) if (isinstance(n, (ast.FunctionDef, ast.ClassDef)) and n.name == name)
             or (isinstance(n, ast.alias) and (n.asname or n.name) == name)
             or (isinstance(n, (ast.Assign, ast.AugAssign, ast.AnnAssign, ast.For, ast.With, ast.NamedExpr)) and any(
                 isinstance(t, ast.Name) and t.id == name and isinstance(t.ctx, ast.Store) for t in ast.walk(n)
                 if not isinstance(n, ast.For) or t in ast.walk(n.target)))]
    if not binds or any(not (isinstance(b, ast.Assign) and len(b.targets) == 1 and isinstance(b.targets[0], ast.Name)
                             and dotted(b.value) in COMPAT.get(name, ())) for b in binds):
        bad(binds[-1] if binds else None, "%s is not bound in compat.py the way the translator assumes" % name, fn)
    return True


def compat_lambda_isinstance(name):
    """is `name` bound in netaddr/compat.py only as `name = lambda x: isinstance(x, ...)`?"""
    fn = "netaddr/compat.py"
    text = open(os.path.join(REPO, fn), encoding="utf-8").read()
    binds = [n for n in ast.walk(ast.parse(text)) if (isinstance(n, (ast.FunctionDef, ast.ClassDef)) and n.name == name)
             or (isinstance(n, ast.alias) and (n.asname or n.name) == name)
             or (isinstance(n, (ast.Assign, ast.AugAssign, ast.AnnAssign)) and any(
                 isinstance(t, ast.Name) and t.id == name and isinstance(t.ctx, ast.Store) for t in ast.walk(n)))]
    ok = lambda b: (isinstance(b, ast.Assign) and len(b.targets) == 1 and isinstance(b.targets[0], ast.Name) and isinstance(b.value, ast.Lambda)
                    and len(b.value.args.args) == 1 and isinstance(b.value.body, ast.Call) and dotted(b.value.body.func) == "isinstance"
                    and len(b.value.body.args) == 2 and dotted(b.value.body.args[0]) == b.value.args.args[0].arg)
    if not binds or not all(ok(b) for b in binds):
        bad(binds[-1] if binds else None, "%s is not bound in compat.py the way the translator assumes" % name, fn)
    return True


class Module:
    """One parsed source file: classes, their bases and function definitions."""

    def __init__(self, fn):
        self.fn, self.text = fn, open(os.path.join(REPO, fn), encoding="utf-8").read()
        self.tree = ast.parse(self.text)
        self.classes = {c.name: c for c in self.tree.body if isinstance(c, ast.ClassDef)}
        self.imports = {(a.asname or a.name): "%s.%s" % (n.module, a.name) for n in self.tree.body
                        if isinstance(n, ast.ImportFrom) for a in n.names}

    @staticmethod
    def lambda_property(st, name):
        """class-level `name = property(lambda self: e, ...)` as the getter `def name(self): return e`, else None"""
        if not (isinstance(st, ast.Assign) and len(st.targets) == 1 and isinstance(st.targets[0], ast.Name) and st.targets[0].id == name
                and isinstance(st.value, ast.Call) and dotted(st.value.func) == "property" and st.value.args
                and isinstance(st.value.args[0], ast.Lambda)):
            return None
        lam = st.value.args[0]
        f = ast.FunctionDef(name=name, args=lam.args, body=[ast.copy_location(ast.Return(value=lam.body), lam)], decorator_list=[])
        ast.copy_location(f, st)
        return ast.fix_missing_locations(f)

    def named_property(self, c, st, name):
        """class-level `name = property(_getter, ...)` with `_getter` a plain method of the same class: that method, else None"""
        if not (isinstance(st, ast.Assign) and len(st.targets) == 1 and isinstance(st.targets[0], ast.Name) and st.targets[0].id == name
                and isinstance(st.value, ast.Call) and dotted(st.value.func) == "property" and st.value.args
                and isinstance(st.value.args[0], ast.Name) and not any(k.arg == "fget" for k in st.value.keywords)):
            return None
        g = [f for f in c.body if isinstance(f, ast.FunctionDef) and f.name == st.value.args[0].id]
        binds = [n for x in c.body for n in ([x] if isinstance(x, (ast.FunctionDef, ast.ClassDef)) else ast.walk(x))
                 if (isinstance(n, ast.Name) and n.id == st.value.args[0].id and isinstance(n.ctx, ast.Store))
                 or (isinstance(n, (ast.FunctionDef, ast.ClassDef)) and n.name == st.value.args[0].id)]
        return g[0] if len(g) == 1 and len(binds) == 1 and not g[0].decorator_list else None

    def lookup(self, cls, name):
        """(defining class, FunctionDef, is_property) of attribute `name` of class `cls` (depth-first through the bases)."""
        c = self.classes.get(cls)
        if c is None:
            return None
        fs = [f for f in c.body if isinstance(f, ast.FunctionDef) and f.name == name
              and not any(isinstance(d, ast.Attribute) and d.attr in ("setter", "deleter") for d in f.decorator_list)]
        lam = [(st, self.lambda_property(st, name) or self.named_property(c, st, name)) for st in c.body]
        lam = [(st, f) for st, f in lam if f is not None]
        # any other binding of the name in the class body (alias assignment, definition under if/try, ...) is not understood
        other = [n for st in c.body if st not in fs and not (isinstance(st, ast.FunctionDef) and st.name == name)
                 and not any(st is l for l, _ in lam)
                 for n in ([st] if isinstance(st, ast.FunctionDef) else ast.walk(st))
                 if (isinstance(n, ast.Name) and n.id == name and isinstance(n.ctx, ast.Store))
                 or (isinstance(n, (ast.FunctionDef, ast.ClassDef)) and n.name == name and n is not st)]
        if len(fs) + len(lam) > 1 or other:
            bad((fs[1:] + [f for _, f in lam] + other)[-1], "%s.%s is bound more than once or not by a plain def" % (cls, name))
        if lam:
            return cls, lam[0][1], True
        if fs:
            decs = [dotted(d) for d in fs[0].decorator_list]
            if decs not in ([], ["property"]):
                bad(fs[0], "unsupported decorator on %s.%s" % (cls, name))
            return cls, fs[0], decs == ["property"]
        for b in c.bases:
            r = self.lookup(dotted(b), name)
            if r:
                return r
        return None

    def function(self, name):
        """the module-level `def name`, which must be the only top-level binding of that name"""
        if "." in name:                                  # SRCB: "outer.inner" = the one `def inner` in the body of `outer`
            outer, _, inner = name.rpartition(".")
            g = self.function(outer)
            binds = [n for n in ast.walk(g) if n is not g and ((isinstance(n, (ast.FunctionDef, ast.ClassDef)) and n.name == inner)
                     or (isinstance(n, ast.Name) and n.id == inner and isinstance(n.ctx, ast.Store)))]
            if len(binds) != 1 or binds[0] not in g.body or not isinstance(binds[0], ast.FunctionDef) or binds[0].decorator_list:
                bad(binds[-1] if binds else g, "%s is not bound exactly once, by a plain def directly in the body of %s" % (inner, outer))
            return binds[0]
        binds = [n for st in self.tree.body
                 for n in ([st] if isinstance(st, (ast.FunctionDef, ast.ClassDef)) else ast.walk(st))
                 if (isinstance(n, (ast.FunctionDef, ast.ClassDef)) and n.name == name)
                 or (isinstance(n, ast.Name) and n.id == name and isinstance(n.ctx, ast.Store))
                 or (isinstance(n, ast.alias) and (n.asname or n.name) == name)]
        if len(binds) != 1 or not isinstance(binds[0], ast.FunctionDef) or binds[0].decorator_list:
            bad(binds[-1] if binds else None, "%s is not bound exactly once, by a plain top-level def" % name)
        return binds[0]

    def toplevel(self, name):
        return any((isinstance(n, (ast.FunctionDef, ast.ClassDef)) and n.name == name)
                   or (isinstance(n, ast.Name) and n.id == name and isinstance(n.ctx, ast.Store))
                   or (isinstance(n, ast.alias) and (n.asname or n.name) == name)
                   for st in self.tree.body for n in ([st] if isinstance(st, (ast.FunctionDef, ast.ClassDef)) else ast.walk(st)))

    def ancestors(self, cls):
        out = [cls]
        for b in (self.classes[cls].bases if cls in self.classes else []):
            out += self.ancestors(dotted(b))
        return out


class Loop:
    """One translated loop: a Fixpoint emitted before the definition of its function."""

    def __init__(self, name, node, iswhile, params, rty, ir, outcome, elem=None, target=None, lret=False, israng=False):
        self.name, self.node, self.iswhile, self.params, self.rty, self.ir, self.outcome = name, node, iswhile, params, rty, ir, outcome
        self.elem, self.target, self.lret, self.israng = elem, target, lret, israng

    def text(self, fn):
        ps = lambda xs: "".join(" (%s : %s)" % (cn, unparen(coqty(ty, self.node))) for cn, ty in xs)
        rt = coqty(self.rty, self.node)
        if self.lret:           # a loop with `return` in its body: inl <the function's result> | inr <the variables read afterwards>
            rt = "(%s + %s)" % (coqty(fn.retkind, self.node), rt)
        rt = "outcome " + rt if self.outcome else unparen(rt)
        where = "%s: %s, loop %s (`%s`), lines %d-%d" % (fn.mod.fn, fn.what(), self.name.rsplit("loop", 1)[1],
                                                         "while" if self.iswhile else "for", self.node.lineno, self.node.end_lineno)
        if self.iswhile:
            return ("(* %s; one iteration per unit of fuel *)\nFixpoint %s (fuel : nat)%s : %s :=\n  match fuel with\n"
                    "  | O => Raise OutOfFuel\n  | S fuel' =>\n    %s\n  end.\n"
                    % (where, self.name, ps(self.params), rt, fn.render(self.ir, "    ", self.outcome)))
        inv, car = self.params
        if self.israng:
            return ("(* %s; one iteration per unit of `fuel` = the length of the range *)\nFixpoint %s%s (fuel : nat)%s : %s :=\n"
                    "  match fuel with\n  | O =>\n    %s\n  | S fuel' =>\n    %s\n  end.\n"
                    % (where, self.name, ps(inv), ps(car), rt, fn.render(self.ir[0], "    ", self.outcome),
                       fn.render(self.ir[1], "    ", self.outcome)))
        return ("(* %s; structural on the remaining elements *)\nFixpoint %s%s (xs : list %s)%s : %s :=\n  match xs with\n"
                "  | [] =>\n    %s\n  | %s :: xs' =>\n    %s\n  end.\n"
                % (where, self.name, ps(inv), coqty(self.elem, self.node), ps(car), rt,
                   fn.render(self.ir[0], "    ", self.outcome), self.target, fn.render(self.ir[1], "    ", self.outcome)))


class Fn:
    """Translation of one method for one receiver class, or of one module-level function (recv None)."""

    def __init__(self, tr, recv, name, ptypes):
        self.tr, self.recv, self.name, self.mod = tr, recv, name, tr.mod
        self.file = tr.out or (FILE_OF.get(name, FILES[0]) if recv is None else FILES[0])
        self.cname = tr.mangle(recv, name)
        self.pyname = pyname = name.partition(":")[0]
        if recv is None:
            self.owner, self.f, self.is_prop = None, self.mod.function(pyname), False
        else:
            r = self.mod.lookup(recv, pyname)
            if r is None:
                bad(None, "%s.%s not found" % (recv, pyname))
            self.owner, self.f, self.is_prop = r
        self.statevars, self.mutating, self.valued = [], False, True
        if recv in STATEVARS:
            self.f = self.state_as_locals(self.f)
        self.ptypes0 = ptypes                            # (the declared parameter types, for a prepare hook that needs them: FnB)
        self.f = self.prepare(self.f)                    # hook (identity here; CtorFn: constructor state as locals; FnE, FnB: rewritten copies)
        a = self.f.args
        if a.vararg or a.kwarg or a.kwonlyargs or a.posonlyargs or (recv is not None and (not a.args or a.args[0].arg != "self")):
            bad(self.f, "unsupported signature")
        if any(not isinstance(d, ast.Constant) for d in a.defaults):
            bad(self.f, "non-constant default argument")
        self.attrs = {}
        if recv is not None:
            self.attrs = {"self._module.version": ("int", "ver"),
                          "self._module.width": ("int", "w"), "self._module.max_int": ("int", "(max_int_w w)")}
        for x, (ty, term) in UNIT_NAMES.get(tr.out, {}).items():
            if self.mod.imports.get(x) == "netaddr.compat." + x and compat_ok(x):
                self.attrs[x] = (ty, term)
        if recv == "EUI":                                # an EUI object: (_module.version, _value)
            self.attrs = {"self._module.version": ("int", "ver")}
        for m, _ in STRATEGY + UNIT_STRATEGY.get(tr.out, ()):
            if self.mod.imports.get("_" + m) == "netaddr.strategy." + m:
                for c in ("width", "version", "max_int"):
                    self.attrs["_%s.%s" % (m, c)] = ("int", "src_%s_%s" % (m, c))
        if recv == "IPRange":
            self.attrs.update({"self._start": ("obj", ("ver", "w", "s", "(ver, s)")), "self._end": ("obj", ("ver", "w", "e", "(ver, e)")),
                               "self._start._value": ("int", "s"), "self._end._value": ("int", "e")})
        elif recv is not None:
            self.attrs["self._value"] = ("int", "v")
        if recv == "IPNetwork":
            self.attrs["self._prefixlen"] = ("int", "p")
        self.used, self.pre, self.nohoist, self.nfresh, self.size = {}, [], 0, 0, 0
        self.deps, self.depfns, self.loops, self.loopmemo, self.lrets = set(), [], [], {}, []
        self.assumes_inv = False        # some shift count built from object state only was taken as non-negative (class invariant)
        self.freshbind = set()          # assignments `x = <constructor result>`: x holds an object nobody else can see
        loops = sorted((n for n in ast.walk(self.f) if isinstance(n, (ast.For, ast.While))), key=lambda n: (n.lineno, n.col_offset))
        self.loopno = {id(n): i + 1 for i, n in enumerate(loops)}
        env = {"@taint": frozenset(), "@mut": None, "@break": None, "@continue": None, "@raw": frozenset(), "@lret": False}
        self.params, self.ptypes_declared = [], set(ptypes)
        for attr, ty in STATEVARS.get(recv, ()):         # the object's state, passed like a leading parameter
            ty = parse_type(ty)
            cn = self.coqname(self.f, "self" + attr)
            env["self" + attr] = (ty, cn)
            self.statevars.append((cn, ty))
        for x in a.args[(0 if recv is None else 1):]:
            if recv is None and x.arg not in ptypes:
                bad(x, "parameter %s of %s has no declared type in FUNCS" % (x.arg, name))
            ty = parse_type(ptypes.get(x.arg, "int"))
            cn = self.coqname(x, x.arg)
            env[x.arg] = (ty, cn)
            env["@taint"] |= {x.arg}
            self.params.append((cn, ty))
        self.unit_init(env)                 # (SRCF) hook for a unit's own class of Fn: extra attributes / state parameters
        body = self.f.body
        if body and isinstance(body[0], ast.Expr) and isinstance(body[0].value, ast.Constant) and isinstance(body[0].value.value, str):
            body = body[1:]
        env = self.initial_env(env)                      # hook (identity here; CtorFn: declared tuple / object parameters)
        self.ir = self.block(body, env, lambda e: self.leaf(e, "none", None), [])
        self.finish()

    def prepare(self, f):
        return f

    def initial_env(self, env):
        return env

    def unit_init(self, env):
        """(SRCF) hook called before the body is translated; the class a unit names in FN_CLASS may add attributes / parameters"""

    # ---- object state read and written like locals (STATEVARS)
    def method_mutates(self, name, seen=()):
        """does method `name` of the receiver class assign a state attribute: directly, by a method call on it other than the
        pure ones, or through another method of self?"""
        r = self.mod.lookup(self.recv, name)
        if r is None:
            return False
        paths = {"self." + a for a, _ in STATEVARS[self.recv]}
        for n in ast.walk(r[1]):
            if isinstance(n, ast.Attribute) and dotted(n) in paths and not isinstance(n.ctx, ast.Load):
                return True
            if isinstance(n, ast.Call) and isinstance(n.func, ast.Attribute):
                if dotted(n.func.value) in paths and n.func.attr not in ("union", "copy"):
                    return True
                if (dotted(n.func) == "self." + n.func.attr and n.func.attr not in seen + (name,)
                        and self.method_mutates(n.func.attr, seen + (name,))):
                    return True
        return False

    def state_as_locals(self, f):
        """a copy of method f in which the state attributes are local names: `self._a` -> name `self_a` (a leading parameter);
        `self.m(x)` -> `self.m(<state names>, x)`; statement `self.m(x)` of a mutating m -> `<state names> = self.m(..)`;
        in a mutating method `return e` -> `return (<state names>, e)`, `return` / end of body -> `return <state names>`."""
        import copy
        f, fn = copy.deepcopy(f), self
        names = ["self" + a for a, _ in STATEVARS[self.recv]]
        paths = {"self." + a: "self" + a for a, _ in STATEVARS[self.recv]}
        self.mutating = self.method_mutates(self.pyname)
        isnone = lambda v: v is None or (isinstance(v, ast.Constant) and v.value is None)
        rets = [n for n in ast.walk(f) if isinstance(n, ast.Return)]
        self.valued = any(not isnone(n.value) for n in rets)
        if self.mutating and self.valued and any(isnone(n.value) for n in rets):
            bad(f, "method that assigns the object state returns a value on some paths only")

        def state(ctx, at):
            xs = [ast.copy_location(ast.Name(id=x, ctx=ctx()), at) for x in names]
            return xs[0] if len(xs) == 1 else ast.copy_location(ast.Tuple(elts=xs, ctx=ctx()), at)

        class T(ast.NodeTransformer):
            def visit_Attribute(self, n):
                if dotted(n) in paths:
                    return ast.copy_location(ast.Name(id=paths[dotted(n)], ctx=n.ctx), n)
                return self.generic_visit(n)

            def visit_Call(self, n):
                own = isinstance(n.func, ast.Attribute) and dotted(n.func) == "self." + n.func.attr
                n = self.generic_visit(n)
                if own:
                    n.args = [ast.copy_location(ast.Name(id=x, ctx=ast.Load()), n) for x in names] + n.args
                return n

            def visit_Expr(self, st):
                v = st.value
                if (isinstance(v, ast.Call) and isinstance(v.func, ast.Attribute) and dotted(v.func) == "self." + v.func.attr
                        and fn.method_mutates(v.func.attr)):
                    v = self.visit(v)
                    v.state_call = True
                    return ast.copy_location(ast.Assign(targets=[state(ast.Store, st)], value=v), st)
                return self.generic_visit(st)

            def visit_Return(self, st):
                st = self.generic_visit(st)
                if fn.mutating:
                    st.value = (ast.copy_location(ast.Tuple(elts=[state(ast.Load, st), st.value], ctx=ast.Load()), st) if fn.valued
                                else state(ast.Load, st))
                return st
        f = T().visit(f)
        if self.mutating and not self.valued and not isinstance(f.body[-1], (ast.Return, ast.Raise)):
            f.body.append(ast.copy_location(ast.Return(value=state(ast.Load, f.body[-1])), f.body[-1]))
            f.body[-1].lineno = f.body[-1].end_lineno = f.end_lineno
        return ast.fix_missing_locations(f)

    # ---- names
    def coqname(self, node, name):
        cn = name + "_" if (name in RESERVED or re.fullmatch(r"h\d+", name) or name.startswith("src_")) else name
        if not re.fullmatch(r"[A-Za-z_][A-Za-z0-9_]*", cn) or cn == "_":
            bad(node, "identifier %r" % name)
        if self.used.setdefault(cn, name) != name:
            bad(node, "identifier clash on %s" % cn)
        return cn

    def fresh(self):
        self.nfresh += 1
        return "h%d" % self.nfresh

    @staticmethod
    def objvar(x):
        """an IPAddress object held in variable x : Z * Z -> (version, width, value, the pair itself)"""
        return ("(fst %s)" % x, "(width (fst %s))" % x, "(snd %s)" % x, x)

    def hoist(self, node, item):
        if self.nohoist:
            bad(node, "sub-expression that can raise under and/or/conditional expression")
        self.pre.append(item)

    def take_pre(self):
        pre, self.pre = self.pre, []
        return pre

    @staticmethod
    def wrap(pre, ir):
        for it in reversed(pre):
            ir = ("if", it[1], ("raise", it[2]), ir) if it[0] == "guard" else ("bind", it[1], it[2], ir)
        return ir

    def state(self, env):
        """the receiver's state parameters as they are now (after `self._value = e` the new value is passed on)"""
        if self.recv in STATEVARS:
            return " ".join(env["self" + attr][1] for attr, _ in STATEVARS[self.recv])
        inv = {v: k for k, v in FIELD.items()}
        return " ".join(env[inv[x]][1] if inv.get(x) in env else x for x in STATE[self.recv])

    def tainted(self, node, env):
        return any(isinstance(n, ast.Name) and n.id in env["@taint"] for n in ast.walk(node))

    def snapshot(self):
        return dict(self.used), self.nfresh, self.size, list(self.pre), self.nohoist, list(self.loops), dict(self.loopmemo)

    def restore(self, snap):
        self.used, self.nfresh, self.size, self.pre, self.nohoist, self.loops, self.loopmemo = snap

    # ---- calls of other translated definitions and constructors
    def generated(self, node, recv, name, state, args):
        """use of translated definition (recv, name) on receiver state `state` with arguments [(type, term)]"""
        d = self.tr.get(recv, name, node)
        if FILES.index(d.file) > FILES.index(self.file):
            bad(node, "%s lives in %s, which comes after %s" % (d.cname, d.file, self.file))
        self.deps.add((recv, name))
        self.depfns.append(d)
        self.assumes_inv |= d.assumes_inv
        if len(args) != len(d.params):
            bad(node, "unsupported argument list for %s" % d.cname)
        for (ty, _), (_, pty) in zip(args, d.params):
            unify(node, ty, pty, "argument of %s" % d.cname)
        term = "(%s)" % " ".join([d.cname] + ([state] if state else []) + [t for _, t in args])
        if d.optional and d.kind == "bool" and getattr(self, "opt_ok", None) == id(node):
            return ("out", "optbool", term) if d.outcome else ("optbool", term)
        if d.optional:
            bad(node, "use of %s, which may return None" % d.cname)
        if d.mutating and not getattr(node, "state_call", False):
            bad(node, "call of %s, which assigns the object state, inside an expression" % d.cname)
        return ("out", d.kind, term) if d.outcome else (d.kind, term)

    def ctor(self, node, cls, env):
        kw = {k.arg: k.value for k in node.keywords}
        if None in kw or len(kw) != len(node.keywords):
            bad(node, "unsupported keyword arguments")
        if cls in CTOR_AS_ARG:
            if kw or len(node.args) != 1:
                bad(node, "%s constructor form other than (int)" % cls)
            return ("int", self.int_(node.args[0], env))             # the object is represented by the integer it is made from
        if cls == "EUI":
            args = list(node.args) + ([kw.pop("version")] if "version" in kw and len(node.args) == 1 else [])
            if kw or len(args) != 2:
                bad(node, "EUI constructor form other than (int, version)")
            val, ver = self.int_(args[0], env), self.int_(args[1], env)
            return ("out", "eui", "(mk_eui %s %s)" % (ver, val))
        if cls == "IPAddress":
            args = list(node.args) + ([kw.pop("version")] if "version" in kw and len(node.args) == 1 else [])
            if kw or len(args) != 2:
                bad(node, "IPAddress constructor form other than (int, version)")
            val, ver = self.int_(args[0], env), self.int_(args[1], env)
            return ("out", "obj", "(mk_addr %s %s)" % (ver, val))
        if cls == "IPNetwork" and not kw and len(node.args) == 1 and not isinstance(node.args[0], ast.Tuple):
            ty, t = self.ex(node.args[0], env)          # copy constructor, default flags: the identity on the model
            if ty != "net":
                bad(node, "IPNetwork(x) of %s (only an IPNetwork-valued x is the identity)" % show(ty))
            return ("net", t)
        if cls == "IPNetwork":
            if set(kw) != {"version"} or len(node.args) != 1 or not isinstance(node.args[0], ast.Tuple) or len(node.args[0].elts) != 2:
                bad(node, "IPNetwork constructor form other than ((int, int), version=...) or (network)")
            a, b = [self.int_(x, env) for x in node.args[0].elts]
            return ("out", "net", "(mk_net %s %s %s)" % (self.int_(kw["version"], env), a, b))
        bad(node, "constructor of %s" % cls)

    def objattr(self, node, head, tail, env):
        """attribute path `tail` of the IPNetwork-valued variable or refined operand `head`"""
        ty, t = env[head]
        if ty == "net":
            cls, ver, fields = "IPNetwork", "(nver %s)" % t, {"_value": "(nval %s)" % t, "_prefixlen": "(nplen %s)" % t}
            state = "%s (width %s) (nval %s) (nplen %s)" % (ver, ver, t, t)
        else:
            kind, f = ty[1], ty[2]
            if kind not in KINDCLASS:
                bad(node, "attribute of an operand that is no BaseIP object")
            cls, ver = KINDCLASS[kind], f["ver"]
            fields = {"OAddr": {"_value": "v"}, "ONet": {"_value": "v", "_prefixlen": "p"},
                      "ORng": {"_start._value": "s", "_end._value": "e"}}[kind]
            fields = {k: f[x] for k, x in fields.items()}
            state = " ".join([ver, "(width %s)" % ver] + [f[x] for x in dict(OPERAND)[kind][1:]])
        if tail in ("_module.version", "_module.width", "_module.max_int"):
            return ("int", {"version": ver, "width": "(width %s)" % ver, "max_int": "(max_int_w (width %s))" % ver}[tail[8:]])
        if tail in fields:
            return ("int", fields[tail])
        r = self.tr.modof(cls).lookup(cls, tail) if "." not in tail else None
        if r and r[2]:
            if head in env["@raw"] and self.tr.get(cls, tail, node).assumes_inv:
                # the object's _prefixlen was assigned directly (no setter): the invariant the callee's translation relies on
                # is tested here; where it fails Python raises from inside the property, which is not translated
                self.hoist(node, ("guard", "(negb ((0 <=? (nplen %s)) && ((nplen %s) <=? (width (nver %s)))))" % (t, t, t), "Unsupported"))
            return self.generated(node, cls, tail, state, [])
        bad(node, "attribute %s of %s %s" % (tail, "an" if cls[0] == "I" else "a", cls))

    def callfn(self, node, name, env):
        if node.keywords:
            bad(node, "keyword arguments in a call of %s" % name)
        return self.generated(node, None, name, "", [self.ex(x, env) for x in node.args])

    def isinst(self, node, kind, cls):
        """isinstance(<operand of this kind>, cls), decided from the class hierarchy of the parsed module"""
        if cls not in self.mod.classes or any(c not in self.mod.classes for c in KINDCLASS.values()):
            bad(node, "isinstance against %s, which is not a class of this module" % cls)
        if kind == "OOther":
            return False
        if cls in self.mod.ancestors(KINDCLASS[kind]):
            return True
        if KINDCLASS[kind] in self.mod.ancestors(cls):
            bad(node, "isinstance against %s, a subclass of %s: not decided by the operand kind" % (cls, KINDCLASS[kind]))
        return False

    def int_(self, node, env):
        ty, t = self.ex(node, env)
        if ty != "int":
            bad(node, "int expression expected, got %s" % show(ty))
        return t

    def bool_(self, node, env):
        self.opt_ok = id(node) if isinstance(node, ast.Call) else None      # `if self.m():` / `not self.m()` with m() -> None | bool
        ty, t = self.ex(node, env)
        self.opt_ok = None
        if ty == "optbool":
            return "(py_truthy %s)" % t                 # the truth value of None is False
        if is_list(ty):
            return "(py_nonempty %s)" % t               # truth value of a list
        if ty != "bool":
            bad(node, "bool expression expected, got %s" % show(ty))
        return t

    # ---- expressions: -> (type, term); rhs() may also return ("out", kind, term) for a call that can raise
    def ex(self, node, env):
        r = self.rhs(node, env)
        if r[0] != "out":
            return r
        if r[1] != "obj" and not is_value(r[1]):
            bad(node, "%s result used inside an expression" % show(r[1]))
        h = self.fresh()
        self.hoist(node, ("bind", h, r[2]))
        return ("obj", self.objvar(h)) if r[1] == "obj" else (r[1], h)

    def rhs(self, node, env):
        self.size += 1
        if self.size > 4000:
            bad(node, "translation too large")
        if isinstance(node, ast.Constant):
            if node.value is None:
                return ("none", None)
            if isinstance(node.value, bool):
                return ("bool", "true" if node.value else "false")
            if isinstance(node.value, int):
                return ("int", literal(node, self.mod.text))
            if isinstance(node.value, str) and all(32 <= ord(c) < 127 for c in node.value):
                return ("str", "\"%s\"%%string" % node.value.replace('"', '""'))
            bad(node, "constant %r" % type(node.value).__name__)
        if isinstance(node, ast.Name):
            if node.id in env:
                if env[node.id][0] == "sarg":
                    bad(node, "use of %s before its isinstance(_, _int_type) guard" % node.id)
                return env[node.id]
            if node.id in ("IPAddress", "IPNetwork") and (node.id in self.mod.classes
                                                         or self.mod.imports.get(node.id) == "netaddr.ip." + node.id):
                return ("cls", node.id)
            if node.id in CTOR_AS_ARG and node.id in self.mod.classes:
                return ("cls", node.id)
            if node.id in self.attrs and not node.id.startswith("self"):
                return self.attrs[node.id]
            if node.id in UNIT_TABLES.get(self.tr.out, {}) and self.mod.toplevel(node.id):
                return (parse_type(UNIT_TABLES[self.tr.out][node.id]), node.id)
            bad(node, "unknown (or possibly unbound) name %s" % node.id)
        if isinstance(node, ast.Attribute):
            path = dotted(node)
            if path in env:
                return env[path]
            if path in self.attrs:
                return self.attrs[path]
            if path == "self.__class__" and self.recv:
                return ("cls", self.recv)
            head, _, tail = (path or "").partition(".")
            if head in env and env[head][0] == "dialect" and tail in ("word_size", "num_words"):
                return ("int", "(%s %s)" % ("fst" if tail == "word_size" else "snd", env[head][1]))
            if head in env and env[head][0] == "eui":
                t = env[head][1]
                if tail in ("_value", "_module.version"):
                    return ("int", "(%s %s)" % ("evalue" if tail == "_value" else "ever", t))
                r = self.mod.lookup("EUI", tail) if "." not in tail else None
                if r and r[2]:
                    return self.generated(node, "EUI", tail, "(ever %s) (evalue %s)" % (t, t), [])
                bad(node, "attribute %s of an EUI" % tail)
            if head in env and (env[head][0] == "net" or env[head][0][0] == "opnd"):
                return self.objattr(node, head, tail, env)
            if self.recv and path and path.startswith("self.") and path.count(".") == 1:
                r = self.mod.lookup(self.recv, node.attr)
                if r and r[2]:
                    return self.generated(node, self.recv, node.attr, self.state(env), [])
            bad(node, "attribute %s" % (path or "of a computed object"))
        if isinstance(node, ast.UnaryOp):
            if isinstance(node.op, ast.USub):
                return ("int", "(- %s)" % self.int_(node.operand, env))
            if isinstance(node.op, ast.Not):
                return ("bool", "(negb %s)" % self.bool_(node.operand, env))
            bad(node, "unary operator %s" % type(node.op).__name__)
        if isinstance(node, ast.BinOp):
            if type(node.op) not in ARITH:
                bad(node, "operator %s" % type(node.op).__name__)
            (ta, a), (tb, b) = self.ex(node.left, env), self.ex(node.right, env)
            if isinstance(node.op, ast.Add) and is_list(ta) and is_list(tb):
                unify(node, ta, tb, "list concatenation")
                return (("list", ta[1]), "(%s ++ %s)" % (a, b))
            if ta != "int" or tb != "int":
                bad(node, "int expression expected, got %s" % show(tb if ta == "int" else ta))
            nonneg_lit = isinstance(node.right, ast.Constant) and isinstance(node.right.value, int) and node.right.value >= 0
            if isinstance(node.op, (ast.LShift, ast.RShift)) and not nonneg_lit and self.tainted(node.right, env):
                self.hoist(node, ("guard", "(%s <? 0)" % b, "ValueError"))      # CPython: negative shift count
            elif isinstance(node.op, (ast.LShift, ast.RShift, ast.Pow)) and not nonneg_lit:
                self.assumes_inv = True                                         # class invariant 0 <= prefixlen <= width
            if isinstance(node.op, ast.Pow) and not nonneg_lit and self.tainted(node.right, env):
                self.hoist(node, ("guard", "(%s <? 0)" % b, "Unsupported"))     # a float for a negative exponent: outside the model
            if isinstance(node.op, (ast.FloorDiv, ast.Mod)) and not (isinstance(node.right, ast.Constant) and node.right.value != 0):
                bad(node, "// or % by a non-literal (ZeroDivisionError not modelled)")
            return ("int", ARITH[type(node.op)] % (a, b))
        if isinstance(node, ast.BoolOp):
            first = self.bool_(node.values[0], env)
            self.nohoist += 1
            rest = [self.bool_(x, env) for x in node.values[1:]]
            self.nohoist -= 1
            return ("bool", "(%s)" % (" && " if isinstance(node.op, ast.And) else " || ").join([first] + rest))
        if isinstance(node, ast.Compare) and len(node.ops) == 1 and isinstance(node.ops[0], (ast.Eq, ast.Is)) and dotted(
                node.left) == "self._module" and "self._module.version" in self.attrs and isinstance(node.comparators[0], ast.Name) and (
                node.comparators[0].id + ".version") in self.attrs and node.comparators[0].id not in env:
            # self._module == _m / is _m: the strategy modules are told apart by their `version` constants
            return ("bool", "(%s =? %s)" % (self.attrs["self._module.version"][1], self.attrs[node.comparators[0].id + ".version"][1]))
        if (isinstance(node, ast.Compare) and len(node.ops) == 1 and isinstance(node.ops[0], ast.In) and dotted(node.left) == "self"
                and "self" not in env and self.recv in SELF_OPERAND and self.tr.out in UNIT_PREAMBLE):
            ty, t = self.ex(node.comparators[0], env)              # self in T for a table row T
            if ty != "row":
                bad(node, "`self in` something other than a table row")
            for cls in ("IPNetwork", "IPRange"):                      # src_contains_row uses both translated __contains__
                d = self.tr.get(cls, "__contains__", node)
                self.deps.add((cls, "__contains__"))
                self.depfns.append(d)
            return ("out", "bool", "(src_contains_row %s %s)" % (t, SELF_OPERAND[self.recv]))
        if isinstance(node, ast.Compare) and len(node.ops) == 1 and isinstance(node.ops[0], ast.In) and isinstance(
                node.comparators[0], ast.Attribute) and isinstance(node.comparators[0].value, ast.Name) and (
                node.comparators[0].value.id in self.mod.classes and node.comparators[0].value.id not in env):
            # e in C.ATTR for a class-level tuple of int literals
            x = self.int_(node.left, env)
            return ("bool", "(existsb (Z.eqb %s) [%s])" % (x, "; ".join(self.tr.class_tuple(node.comparators[0]))))
        if isinstance(node, ast.Compare) and len(node.ops) == 1 and isinstance(node.ops[0], (ast.Eq, ast.NotEq)):
            snap, pre0 = self.snapshot(), list(self.pre)
            (ta, a), (tb, b) = self.ex(node.left, env), self.ex(node.comparators[0], env)
            if ta == "str" and tb == "str":
                return ("bool", ("(String.eqb %s %s)" if isinstance(node.ops[0], ast.Eq) else "(negb (String.eqb %s %s))") % (a, b))
            self.restore(snap)
            self.pre = pre0
        if isinstance(node, ast.Compare):
            xs = [self.int_(x, env) for x in [node.left] + node.comparators[:1]]
            self.nohoist += 1                                   # a <= b <= c evaluates c only if a <= b
            xs += [self.int_(x, env) for x in node.comparators[1:]]
            self.nohoist -= 1
            if any(type(o) not in CMP for o in node.ops):
                bad(node, "comparison operator")
            cs = [CMP[type(o)] % (xs[i], xs[i + 1]) for i, o in enumerate(node.ops)]
            return ("bool", cs[0] if len(cs) == 1 else "(%s)" % " && ".join(cs))
        if isinstance(node, ast.IfExp):
            c = self.bool_(node.test, env)
            self.nohoist += 1
            (ta, a), (tb, b) = self.ex(node.body, env), self.ex(node.orelse, env)
            self.nohoist -= 1
            if ta != tb or ta not in ("int", "bool"):
                bad(node, "conditional expression of types %s/%s" % (show(ta), show(tb)))
            return (ta, "(if %s then %s else %s)" % (c, a, b))
        if isinstance(node, ast.List):
            cell, terms = Cell(), []
            for x in node.elts:
                ty, t = self.ex(x, env)
                if not is_value(ty):
                    bad(x, "list element of kind %s" % show(ty))
                unify(x, ("list", Cell(ty)), ("list", cell), "list element")
                terms.append(t)
            return (("list", cell), "[%s]" % "; ".join(terms))
        if isinstance(node, ast.Subscript):
            return self.subscript(node, env)
        if isinstance(node, ast.Call):
            return self.call(node, env)
        if isinstance(node, ast.ListComp):
            return self.listcomp(node, env)
        bad(node, "expression %s" % type(node).__name__)

    def builtin_call(self, node, f, env, nargs):
        """is node the call f(<nargs positional arguments>) of the builtin f (not shadowed by a local or a module-level name)?"""
        return (isinstance(node, ast.Call) and isinstance(node.func, ast.Name) and node.func.id == f and f not in env
                and not self.mod.toplevel(f) and not node.keywords and len(node.args) == nargs)

    def listexpr(self, node, env):
        """a list-valued expression that is consumed at once (for / enumerate / tuple): reversed(l) is rev l there"""
        if self.builtin_call(node, "reversed", env, 1):
            ty, t = self.ex(node.args[0], env)
            if not is_list(ty):
                bad(node, "reversed() of %s" % show(ty))
            return (("list", ty[1]), "(rev %s)" % t)
        return self.ex(node, env)

    def elem_eqb(self, node, ty):
        """the equality (hence hashing) of the elements of a set: IPNetwork.__eq__ compares key() = (version, first, last)"""
        e = ty[1].find().t
        if e == "net":
            return "net_key_eqb"
        if e == "int":
            return "Z.eqb"
        bad(node, "set of %s" % show(e or "?"))

    def listcomp(self, node, env):
        """[y for x in xs for y in f(x)] -> py_flat_map_o (fun x => f x) xs (the lists f(x) one after the other; the first
        exception wins)"""
        g = node.generators
        if not (len(g) == 2 and all(not x.ifs and not x.is_async and isinstance(x.target, ast.Name) for x in g)
                and isinstance(node.elt, ast.Name) and node.elt.id == g[1].target.id and g[0].target.id != g[1].target.id
                and g[0].target.id not in env and g[1].target.id not in env):
            bad(node, "list comprehension other than [y for x in xs for y in f(x)] with fresh x, y")
        ty, t = self.ex(g[0].iter, env)
        elem = ty[1].find().t if is_list(ty) else None
        if elem is None:
            bad(node, "comprehension over %s" % show(ty))
        cn, lenv = self.bind_local(g[0].target, g[0].target.id, elem, env, g[0].iter)
        saved, self.pre = self.pre, []
        r = self.rhs(g[1].iter, lenv)
        inner, self.pre = self.pre, saved
        if inner:
            bad(node, "comprehension whose inner iterable is more than one call")
        rty = r[1] if r[0] == "out" else r[0]
        if not is_list(rty):
            bad(node, "comprehension whose inner iterable is %s" % show(rty))
        return ("out", ("list", rty[1]), "(py_flat_map_o (fun %s => %s) %s)" % (cn, r[2] if r[0] == "out" else "(Ok %s)" % r[1], t))

    def sorted_(self, node, env):
        """sorted(xs, key=lambda x: <int>, reverse=True) -> py_sorted_desc: stable, descending by key; for a set `xs` the order
        among equal keys is the (unspecified) iteration order = the order of the representing list"""
        kw = {k.arg: k.value for k in node.keywords}
        lam = kw.get("key")
        if not (len(node.args) == 1 and set(kw) == {"key", "reverse"} and len(kw) == len(node.keywords)
                and isinstance(kw["reverse"], ast.Constant) and kw["reverse"].value is True and isinstance(lam, ast.Lambda)
                and len(lam.args.args) == 1 and not (lam.args.defaults or lam.args.vararg or lam.args.kwarg or lam.args.kwonlyargs
                                                     or lam.args.posonlyargs) and lam.args.args[0].arg not in env):
            bad(node, "sorted() other than sorted(xs, key=lambda x: <int>, reverse=True)")
        ty, t = self.ex(node.args[0], env)
        elem = ty[1].find().t if (is_list(ty) or is_set(ty)) else None
        if elem is None:
            bad(node, "sorted() of %s" % show(ty))
        cn, lenv = self.bind_local(lam, lam.args.args[0].arg, elem, env, node.args[0])
        self.nohoist += 1
        key = self.int_(lam.body, lenv)
        self.nohoist -= 1
        return (("list", ty[1]), "(py_sorted_desc (fun %s => %s) %s)" % (cn, key, t))

    def subnet_list(self, node, env):
        """list(x.subnet(prefixlen[, count=c])) for an IPNetwork-valued x: IPNetwork.subnet is a generator and is not translated;
        the call becomes the prelude symbol py_list_subnet (the hand model of the generator, run to exhaustion)"""
        c = node.args[0]
        ty, t = self.ex(c.func.value, env)
        r = self.tr.modof("IPNetwork").lookup("IPNetwork", "subnet")
        if ty != "net" or not r or r[2] or [a.arg for a in r[1].args.args] != ["self", "prefixlen", "count", "fmt"] or [
                (d.value if isinstance(d, ast.Constant) else d) for d in r[1].args.defaults] != [None, None]:
            bad(node, "list(x.subnet(..)) on something other than an IPNetwork with subnet(self, prefixlen, count=None, fmt=None)")
        kw = {k.arg: k.value for k in c.keywords}
        if len(c.args) != 1 or not set(kw) <= {"count"} or len(kw) != len(c.keywords):
            bad(node, "x.subnet() with an argument list other than (prefixlen[, count=c])")
        prefix = self.int_(c.args[0], env)
        cty, ct = self.ex(kw["count"], env) if "count" in kw else ("none", None)
        if cty not in ("none", "int", "optint"):
            bad(node, "count=%s" % show(cty))
        count = "None" if cty == "none" else "(Some %s)" % ct if cty == "int" else ct
        return ("out", ("list", Cell("net")), "(py_list_subnet %s %s %s)" % (t, prefix, count))

    def subscript(self, node, env):
        ty, t = self.ex(node.value, env)
        sl = node.slice
        if isinstance(sl, ast.Slice) and ty == "str":
            k = const_int(sl.lower) if sl.lower is not None else None
            if k is None or k < 0 or sl.upper is not None or sl.step is not None:
                bad(node, "string slice other than s[k:] with a literal k >= 0")
            return ("str", "(py_str_from %d %s)" % (k, t))
        if isinstance(sl, ast.Slice):
            if sl.lower is None and sl.upper is None and const_int(sl.step) == -1 and is_list(ty):
                return (("list", ty[1]), "(rev %s)" % t)
            bad(node, "slice other than l[::-1] on a list")
        i = const_int(sl)
        if i is None:
            bad(node, "subscript with a non-literal index")
        n = len(t) if ty == ("seq",) else len(ty[1]) if isinstance(ty, tuple) and ty[0] == "tup" else None
        if n is None:
            bad(node, "subscript of %s (IndexError not modelled)" % show(ty))
        if not -n <= i < n:
            bad(node, "index %d out of range" % i)
        i %= n
        if ty == ("seq",):
            return t[i]
        return (ty[1][i], "(snd %s)" % ("(fst " * (n - 1 - i) + t + ")" * (n - 1 - i)) if i else "(fst " * (n - 1) + t + ")" * (n - 1))

    def call(self, node, env):
        f = node.func
        if self.builtin_call(node, "int", env, 2) and const_int(node.args[1]) == 2:
            ty, t = self.ex(node.args[0], env)              # int(s, 2): ValueError for text that is no binary literal
            if ty != "str":
                bad(node, "int(x, 2) of %s" % show(ty))
            return ("out", "int", "(py_int_o 2 %s)" % t)
        if isinstance(f, ast.Name) and f.id not in env and not self.mod.toplevel(f.id) and f.id in ("int", "bool", "min", "max", "iter"):
            if node.keywords or len(node.args) != (2 if f.id in ("min", "max") else 1):
                bad(node, "%s() with an unsupported argument list" % f.id)
            if f.id in ("min", "max"):
                return ("int", "(Z.%s %s %s)" % (f.id, self.int_(node.args[0], env), self.int_(node.args[1], env)))
            ty, t = self.ex(node.args[0], env)
            if f.id == "iter" and is_list(ty):
                return (("iter", ty[1]), t)
            if f.id == "int" and ty == "int":
                return ("int", t)
            if f.id == "int" and ty == "obj":                       # int(IPAddress object) = its __int__()
                return self.generated(node, "IPAddress", "__int__", " ".join(t[:3]), [])
            if f.id == "int" and ty == "eui":                       # int(EUI object) = its __int__()
                return self.generated(node, "EUI", "__int__", "(ever %s) (evalue %s)" % (t, t), [])
            if f.id == "bool" and ty in ("int", "bool"):
                return ("bool", "(negb (%s =? 0))" % t if ty == "int" else t)
            bad(node, "%s() of %s" % (f.id, show(ty)))
        if (isinstance(f, ast.Name) and f.id == "len" and "len" not in env and not self.mod.toplevel("len") and len(node.args) == 1
                and not node.keywords and isinstance(node.args[0], ast.Call) and dotted(node.args[0].func) == "_iter_range"
                and "_iter_range" not in env and self.mod.imports.get("_iter_range") == "netaddr.compat._iter_range"
                and compat_ok("_iter_range") and len(node.args[0].args) == 3 and not node.args[0].keywords):
            a, b, c = [self.int_(x, env) for x in node.args[0].args]     # len(range(a, b, c)): Model/PySlice.v (ValueError, OverflowError)
            return ("out", "int", "(py_range_len %s %s %s)" % (a, b, c))
        if (isinstance(f, ast.Attribute) and f.attr == "indices" and isinstance(f.value, ast.Name)
                and env.get(f.value.id, ("",))[0] == "slice" and len(node.args) == 1 and not node.keywords):
            a, b, c = self.fresh(), self.fresh(), self.fresh()           # slice.indices(length): Model/PySlice.v
            return ("out", ("tup", ("int", "int", "int")), "(let '(%s, %s, %s) := %s in py_slice_indices %s %s %s %s)" % (
                a, b, c, env[f.value.id][1], a, b, c, self.int_(node.args[0], env)))
        if isinstance(f, ast.Name) and f.id == "iter_iprange" and f.id not in env and f.id in [
                n.name for n in self.mod.tree.body if isinstance(n, ast.FunctionDef)]:
            g = self.mod.function("iter_iprange")      # a generator function: the call runs nothing, the object is its arguments
            if ([x.arg for x in g.args.args] != ["start", "end", "step"] or [const_int(d) for d in g.args.defaults] != [1]
                    or not any(isinstance(n, ast.Yield) for n in ast.walk(g)) or node.keywords or len(node.args) not in (2, 3)):
                bad(node, "iter_iprange is not the generator iter_iprange(start, end, step=1), or is called with keywords")
            (ta, a), (tb, b) = self.ex(node.args[0], env), self.ex(node.args[1], env)
            if ta != "obj" or tb != "obj":
                bad(node, "iter_iprange of something other than two IPAddress objects")
            step = self.int_(node.args[2], env) if len(node.args) == 3 else "1"
            return ("iterator", "(ItIprange %s %s %s %s %s)" % (a[0], a[2], b[0], b[2], step))
        if self.builtin_call(node, "bin", env, 1):
            return ("str", "(py_bin %s)" % self.int_(node.args[0], env))
        if isinstance(f, ast.Attribute) and f.attr in ("replace", "startswith") and not node.keywords and not (
                isinstance(f.value, ast.Name) and f.value.id not in env):
            ty, t = self.ex(f.value, env)
            args = [self.ex(x, env) for x in node.args]
            if ty != "str" or any(a[0] != "str" for a in args) or len(args) != (2 if f.attr == "replace" else 1):
                bad(node, "%s() on something other than strings" % f.attr)
            return ("str", "(replace %s %s %s)" % (args[0][1], args[1][1], t)) if f.attr == "replace" else (
                "bool", "(starts_with %s %s)" % (args[0][1], t))
        if (isinstance(f, ast.Attribute) and f.attr == "issuperset" and isinstance(f.value, ast.Name) and f.value.id not in env
                and len(node.args) == 1 and not node.keywords):
            ty, t = self.ex(node.args[0], env)              # CHARSET.issuperset(s) for a module-level frozenset of characters
            if ty != "str":
                bad(node, "issuperset() of %s" % show(ty))
            return ("bool", "(py_chars_in [%s] %s)" % ("; ".join(self.tr.charset(f.value.id, node)), t))
        if self.builtin_call(node, "len", env, 1) or self.builtin_call(node, "tuple", env, 1):
            if f.id == "len":
                snap, pre0 = self.snapshot(), list(self.pre)
                ty, t = self.ex(node.args[0], env)
                if ty == "str":
                    return ("int", "(str_len %s)" % t)
                self.restore(snap)
                self.pre = pre0
            ty, t = self.listexpr(node.args[0], env) if f.id == "tuple" else self.ex(node.args[0], env)
            if not is_list(ty):
                bad(node, "%s() of %s" % (f.id, show(ty)))
            return ("int", "(Z.of_nat (List.length %s))" % t) if f.id == "len" else (ty, t)     # a tuple of a list: the same Coq list
        if isinstance(f, ast.Name) and f.id not in env and not self.mod.toplevel(f.id) and f.id in ("sorted", "set", "list"):
            if f.id == "sorted":
                return self.sorted_(node, env)
            if (f.id == "list" and len(node.args) == 1 and not node.keywords and isinstance(node.args[0], ast.Call)
                    and isinstance(node.args[0].func, ast.Attribute) and node.args[0].func.attr == "subnet"):
                return self.subnet_list(node, env)
            if f.id == "set" and len(node.args) == 1 and not node.keywords:
                ty, t = self.ex(node.args[0], env)
                if is_list(ty):
                    return (("set", ty[1]), "(py_set_of_list %s %s)" % (self.elem_eqb(node, ty), t))
            bad(node, "%s() with an unsupported argument" % f.id)
        if isinstance(f, ast.Name) and f.id not in env and self.mod.imports.get(f.id) in EXTERN:
            sym, ptys, rty = EXTERN[self.mod.imports[f.id]]      # an untranslated callee: its hand model, as a prelude symbol
            args = [self.ex(x, env) for x in node.args]
            if node.keywords or len(args) != len(ptys):
                bad(node, "unsupported argument list for %s" % f.id)
            for (ty, _), pty in zip(args, ptys):
                unify(node, ty, parse_type(pty), "argument of %s" % f.id)
            return ("out", parse_type(rty), "(%s)" % " ".join([sym] + [t for _, t in args]))
        if isinstance(f, ast.Name) and f.id not in env and self.tr.owner_of(f.id) is not None:
            return self.callfn(node, f.id, env)
        if self.recv and isinstance(f, ast.Attribute) and dotted(f) == "self." + f.attr and f.attr != "__class__":
            r = self.mod.lookup(self.recv, f.attr)
            if not r or r[2] or node.keywords:
                bad(node, "call of self.%s" % f.attr)
            if self.recv in STATEVARS:                     # state_as_locals put the state names in front of the arguments
                k = len(STATEVARS[self.recv])
                return self.generated(node, self.recv, f.attr, " ".join(self.ex(x, env)[1] for x in node.args[:k]),
                                      [self.ex(x, env) for x in node.args[k:]])
            return self.generated(node, self.recv, f.attr, self.state(env), [("int", self.int_(x, env)) for x in node.args])
        if (isinstance(f, ast.Attribute) and f.attr == "union" and len(node.args) == 1 and not node.keywords
                and isinstance(f.value, ast.Name) and is_set(env.get(f.value.id, ("",))[0])):
            (ta, a), (tb, b) = env[f.value.id], self.ex(node.args[0], env)      # s.union(t): a new set, s first
            unify(node, tb, ta, "argument of union")
            return (("set", ta[1]), "(py_set_union %s %s %s)" % (self.elem_eqb(node, ta), a, b))
        ty, cls = self.ex(f, env) if not isinstance(f, ast.Call) else (None, None)
        if ty != "cls":
            bad(node, "call of %s" % (dotted(f) or "a computed function"))
        return self.ctor(node, cls, env)

    # ---- statements -> IR: let/bind/if/match/join/next/omatch/ret/raise/jret
    def leaf(self, env, kind, term, wrapped=False):
        if kind == "none" and env["@mut"]:
            kind, term = "self", env["@mut"][1]
        if env["@break"] is not None:                   # `return` inside a loop: the loop's Fixpoint answers inl <value>
            if kind in ("none", "self"):
                bad(None, "return without a value inside a loop")
            self.lrets.append(kind)
            return ("lret", kind, term, wrapped)
        return ("ret", kind, term, wrapped)

    def block(self, stmts, env, k, after):
        """IR of the statements; k(env) is what happens when they fall off the end, `after` the statements that may still
        run then (only used to decide which loop variables are read later)"""
        if not stmts:
            return k(env)
        s, rest = stmts[0], list(stmts[1:])
        go = lambda e: self.block(rest, e, k, after)
        if isinstance(s, ast.Pass):
            return go(env)
        if isinstance(s, (ast.Assign, ast.AugAssign)):
            return self.assign(s, env, go)
        if isinstance(s, ast.Expr):
            return self.expr_stmt(s, env, go)
        if isinstance(s, ast.If):
            return self.if_(s, rest, env, k, after)
        if isinstance(s, (ast.While, ast.For)):
            return self.loop(s, rest, env, k, after)
        if isinstance(s, ast.Try):
            if len(s.handlers) == 1 and dotted(s.handlers[0].type) == "StopIteration":
                return self.try_next(s, env, go)
            if (len(s.handlers) == 1 and dotted(s.handlers[0].type) == "NameError" and "NameError" not in env and not s.orelse
                    and not s.finalbody and not self.mod.toplevel("NameError") and self.only_builtins(s.body, env)):
                return self.block(s.body + rest, env, k, after)     # the body reads known names only: the handler is dead code
            if len(s.handlers) == 1 and len(s.handlers[0].body) == 1 and isinstance(s.handlers[0].body[0], ast.Pass):
                return self.try_pass(s, rest, env, k, after)
            return self.try_except(s, rest, env, k, after)
        if isinstance(s, (ast.Break, ast.Continue)):
            h = env["@break" if isinstance(s, ast.Break) else "@continue"]
            if h is None:
                bad(s, "break/continue outside a loop")
            return h(env)
        if isinstance(s, ast.Return):
            return self.return_(s, env)
        if isinstance(s, ast.Raise):
            e = s.exc.func if isinstance(s.exc, ast.Call) else s.exc
            if s.cause or not isinstance(e, ast.Name) or e.id not in EXN:
                bad(s, "raise of something other than a known exception class")
            if env["@mut"]:
                bad(s, "raise after a state assignment (the object would be left modified)")
            self.raise_message_ok(s)
            return ("raise", e.id)
        bad(s, "statement %s" % type(s).__name__)

    # The message of a `raise E(<message>)` is not translated (the model keeps the exception class only), but building it must not be
    # able to raise something else instead: inside the message only calls of the builtins MESSAGE_BUILTINS and of the module's own
    # helper _arg_repr are accepted, and _arg_repr must be THE definition pinned in ARG_REPR_DUMP, bound once, by a plain top-level `def`
    # (not under an `if`, not re-bound): it prints an argument that CPython may refuse to print in decimal (int -> str digit limit).
    def raise_message_ok(self, s):
        if not isinstance(s.exc, ast.Call):
            return
        for a in list(s.exc.args) + [k.value for k in s.exc.keywords]:
            for c in ast.walk(a):
                if isinstance(c, ast.Call):
                    name = c.func.id if isinstance(c.func, ast.Name) else None
                    if name == "_arg_repr":
                        arg_repr_ok(self.mod, s)
                    elif name not in MESSAGE_BUILTINS:
                        bad(s, "call of %s inside an exception message (not known to be unable to raise)" % ast.unparse(c.func))

    def return_(self, s, env):
        if env["@break"] is not None and not env["@lret"]:
            bad(s, "return inside a nested loop")
        v = s.value
        if v is None:
            return self.leaf(env, "none", None)
        if isinstance(v, ast.Name) and v.id == "self" and "self" not in env:
            if not env["@mut"]:
                bad(s, "return self without a state assignment")
            return self.leaf(env, "self", env["@mut"][1])
        if (isinstance(v, ast.Compare) and len(v.ops) == 1 and isinstance(v.ops[0], ast.In) and dotted(v.comparators[0]) == "self"
                and isinstance(v.left, ast.Call) and len(v.left.args) == 1 and isinstance(v.left.args[0], ast.Name)
                and env.get(v.left.args[0].id, ("",))[0][:2] == ("opnd", "OOther")):
            return ("raise", "Unsupported")     # `return IPNetwork(other) in self`: the string fallback, out of scope (see SKIP)
        if isinstance(v, ast.Tuple):
            items = [self.ex(x, env) for x in v.elts]
            if self.recv is not None and all(ty == "int" for ty, _ in items):
                ir = self.leaf(env, "tuple", "[%s]" % "; ".join(t for _, t in items))
            else:
                if any(not is_value(ty) for ty, _ in items):
                    bad(s, "tuple component of kind %s" % [show(ty) for ty, _ in items if not is_value(ty)][0])
                ir = self.leaf(env, ("tup", tuple(ty for ty, _ in items)), tuple_term([t for _, t in items]))
            return self.wrap(self.take_pre(), ir)
        r = self.rhs(v, env)
        if env["@mut"] and r[0] != "none":
            bad(s, "value returned after a state assignment")
        if r[0] == "out":
            ir = self.leaf(env, r[1], r[2], True)
        elif r[0] == "obj":
            ir = self.leaf(env, "obj", r[1][3])
        elif r[0] in ("int", "bool", "none") or is_value(r[0]):
            ir = self.leaf(env, r[0], r[1])
        elif isinstance(r[0], tuple) and r[0][0] == "iter" and r[1] == "[]":
            ir = self.leaf(env, "iterator", "ItEmpty")          # iter([]) (or an exhausted iterator): ListLike.ItEmpty
        else:
            bad(s, "return of a %s value" % show(r[0]))
        return self.wrap(self.take_pre(), ir)

    def static_seq(self, name):
        """is `name` bound once, to a list literal, and only ever read as name[<literal index>]?"""
        ok = {id(n.value) for n in ast.walk(self.f) if isinstance(n, ast.Subscript) and isinstance(n.ctx, ast.Load)
              and const_int(n.slice) is not None}
        uses = [n for n in ast.walk(self.f) if isinstance(n, ast.Name) and n.id == name]
        return sum(isinstance(n.ctx, ast.Store) for n in uses) == 1 and all(
            isinstance(n.ctx, ast.Store) or id(n) in ok for n in uses) and name not in [a.arg for a in self.f.args.args]

    def owned(self, x):
        """does local x only ever hold objects this function made itself (every binding already translated as a constructor
        result) and never escape (every read is x.<attribute>)?  Only then is `x._prefixlen = e` a plain update of x."""
        bases = {id(n.value) for n in ast.walk(self.f) if isinstance(n, ast.Attribute)}
        bases |= {id(n.value) for n in ast.walk(self.f) if isinstance(n, ast.Return) and isinstance(n.value, ast.Name)}   # `return x` ends it
        binds = [st for st in ast.walk(self.f) if isinstance(st, (ast.Assign, ast.AugAssign, ast.For, ast.With, ast.NamedExpr))
                 and any(isinstance(n, ast.Name) and n.id == x and isinstance(n.ctx, ast.Store) and id(n) not in bases for n in ast.walk(st))]
        return (all(id(st) in self.freshbind for st in binds) and x not in [a.arg for a in self.f.args.args]
                and all(id(n) in bases for n in ast.walk(self.f) if isinstance(n, ast.Name) and n.id == x and isinstance(n.ctx, ast.Load)))

    def no_iterator_over(self, node, cn, env):
        """an iterator is translated as the (Coq name of the) list it runs over: that name must not be rebound while it lives"""
        for key, val in env.items():
            if not key.startswith("@") and isinstance(val[0], tuple) and val[0][0] == "iter" and re.search(r"\b%s\b" % re.escape(cn), val[1]):
                bad(node, "%s is rebound or mutated while the iterator %s over it is live" % (cn, key))

    def bind_local(self, node, x, ty, env, value_node=None):
        """env after binding local x (a value of type ty) to its own Coq name"""
        if x in ("self", "_ipv4", "_ipv6"):
            bad(node, "rebinding of %s" % x)
        cn, env = self.coqname(node, x), dict(env)
        self.no_iterator_over(node, cn, env)
        env[x] = (ty, cn)
        if value_node is not None:
            env["@taint"] = env["@taint"] | {x} if self.tainted(value_node, env) else env["@taint"] - {x}
        return cn, env

    def assign(self, s, env, go):
        tgts = s.targets if isinstance(s, ast.Assign) else [s.target]
        if len(tgts) != 1:
            bad(s, "multiple assignment")
        tgt = tgts[0]
        value = s.value if isinstance(s, ast.Assign) else ast.copy_location(ast.BinOp(tgt, s.op, s.value), s)
        if isinstance(tgt, ast.Tuple):                                   # a, b, c = e
            r = self.rhs(value, env)
            pre = self.take_pre()
            ty = r[1] if r[0] == "out" else r[0]
            if not (isinstance(ty, tuple) and ty[0] == "tup" and len(ty[1]) == len(tgt.elts) and all(isinstance(x, ast.Name) for x in tgt.elts)):
                bad(s, "unpacking of %s" % show(ty))
            names = []
            for x, xty in zip(tgt.elts, ty[1]):
                if x.id == "_":
                    names.append("_")
                    env = dict(env)
                    env.pop("_", None)
                else:
                    cn, env = self.bind_local(x, x.id, xty, env, value)
                    names.append(cn)
            return self.wrap(pre, ("bind" if r[0] == "out" else "let", pattern(names), r[2] if r[0] == "out" else r[1], go(env)))
        if (isinstance(tgt, ast.Name) and isinstance(value, ast.Call) and isinstance(value.func, ast.Attribute) and value.func.attr == "pop"
                and isinstance(value.func.value, ast.Name) and is_list(env.get(value.func.value.id, ("",))[0])):
            l = value.func.value.id                                      # x = l.pop()
            if value.args or value.keywords or isinstance(s, ast.AugAssign) or l == tgt.id:
                bad(s, "pop() with arguments")
            lty, lt = env[l]
            elem = lty[1].find().t
            if elem is None:
                bad(s, "pop() from a list whose element type is not known yet")
            lcn, env = self.bind_local(s, l, lty, env)
            cn, env = self.bind_local(tgt, tgt.id, elem, env, value)
            return ("bind", pattern([lcn, cn]), "(py_pop %s)" % lt, go(env))
        if isinstance(tgt, ast.Name) and isinstance(s, ast.Assign) and isinstance(value, ast.List) and value.elts and self.static_seq(tgt.id):
            items = [self.ex(x, env) for x in value.elts]                # a list literal that is only ever indexed by literals
            pre, env = self.take_pre(), dict(env)
            if any(ty not in ("int", "bool", "net") for ty, _ in items):
                bad(s, "list literal element of kind %s" % [show(ty) for ty, _ in items if ty not in ("int", "bool", "net")][0])
            names = [self.coqname(tgt, "%s_%d" % (tgt.id, i)) for i in range(len(items))]
            env[tgt.id] = (("seq",), [(ty, cn) for (ty, _), cn in zip(items, names)])
            ir = go(env)
            for (ty, t), cn in reversed(list(zip(items, names))):
                ir = ("let", cn, t, ir)
            return self.wrap(pre, ir)
        if (isinstance(tgt, ast.Attribute) and isinstance(tgt.value, ast.Name) and env.get(tgt.value.id, ("",))[0] == "eui"
                and tgt.attr == "_value"):
            x, old = tgt.value.id, env[tgt.value.id][1]              # x._value = e on a local EUI object this function made itself
            if not self.owned(x):
                bad(s, "attribute assignment on %s, which may be visible under another name" % x)
            e = self.int_(value, env)
            pre = self.take_pre()
            cn, env = self.bind_local(s, x, "eui", env, value)
            return self.wrap(pre, ("let", cn, "{| ever := ever %s; evalue := %s; edialect := edialect %s |}" % (old, e, old), go(env)))
        if (isinstance(tgt, ast.Attribute) and isinstance(tgt.value, ast.Name) and env.get(tgt.value.id, ("",))[0] == "net"
                and tgt.attr in ("_value", "_prefixlen")):
            x, old = tgt.value.id, env[tgt.value.id][1]              # x._prefixlen = e on a local object: a new record value for x
            if not self.owned(x):
                bad(s, "attribute assignment on %s, which may be visible under another name" % x)
            e = self.int_(value, env)
            pre = self.take_pre()
            cn, env = self.bind_local(s, x, "net", env, value)
            env["@raw"] = env["@raw"] | {x}
            term = "{| nver := nver %s; nval := %s; nplen := %s |}" % (
                old, e if tgt.attr == "_value" else "nval " + old, e if tgt.attr == "_prefixlen" else "nplen " + old)
            return self.wrap(pre, ("let", cn, term, go(env)))
        r = self.rhs(value, env)
        pre, env = self.take_pre(), dict(env)
        path = dotted(tgt)
        if isinstance(tgt, ast.Name):
            x = tgt.id
            ty = r[1] if r[0] == "out" else r[0]
            if r[0] == "out" and r[1] in ("net", "eui") and isinstance(s, ast.Assign) and (
                    r[2].startswith("(mk_net ") or r[2].startswith("(mk_eui ") or any(d.fresh and r[2].startswith("(%s " % d.cname) for d in self.depfns)):
                self.freshbind.add(id(s))
            if is_list(ty) and isinstance(value, ast.Name):
                bad(s, "a second name for a list (aliasing)")
            if r[0] == "out" and (r[1] == "obj" or is_value(r[1])):
                cn, env = self.bind_local(tgt, x, r[1], env, value)
                if r[1] == "obj":
                    env[x] = ("obj", self.objvar(cn))
                return self.wrap(pre, ("bind", cn, r[2], go(env)))
            if is_value(r[0]):
                cn, env = self.bind_local(tgt, x, r[0], env, value)
                return self.wrap(pre, go(env) if r[1] == cn else ("let", cn, r[1], go(env)))
            if r[0] in ("none", "cls") or (isinstance(r[0], tuple) and r[0][0] == "iter"):
                if x in ("self", "_ipv4", "_ipv6"):
                    bad(s, "rebinding of %s" % x)
                self.coqname(tgt, x)
                env[x] = r
                env["@taint"] = env["@taint"] | {x} if self.tainted(value, env) else env["@taint"] - {x}
                return self.wrap(pre, go(env))
            bad(s, "assignment of a %s value" % show(ty))
        if path in FIELD and path in self.attrs and r[0] == "int":
            if env["@mut"] and env["@mut"][0] != path:
                bad(s, "assignment to a second attribute of self")
            if env["@break"] is not None:
                bad(s, "state assignment inside a loop")
            env["@mut"], env[path] = (path, r[1]), ("int", r[1])
            return self.wrap(pre, go(env))
        bad(s, "assignment target")

    def expr_stmt(self, s, env, go):
        v = s.value
        if (isinstance(v, ast.Call) and isinstance(v.func, ast.Attribute) and v.func.attr == "append" and isinstance(v.func.value, ast.Name)
                and is_list(env.get(v.func.value.id, ("",))[0]) and len(v.args) == 1 and not v.keywords):
            l = v.func.value.id                                          # l.append(e)
            lty, lt = env[l]
            ty, t = self.ex(v.args[0], env)
            if not is_value(ty):
                bad(s, "append of a %s value" % show(ty))
            unify(s, ("list", Cell(ty)), lty, "appended element")
            pre = self.take_pre()
            cn, env = self.bind_local(s, l, lty, env)
            if self.tainted(v.args[0], env):
                env["@taint"] = env["@taint"] | {l}
            return self.wrap(pre, ("let", cn, "(%s ++ [%s])" % (lt, t), go(env)))
        if (isinstance(v, ast.Call) and isinstance(v.func, ast.Attribute) and v.func.attr == "remove" and isinstance(v.func.value, ast.Name)
                and is_set(env.get(v.func.value.id, ("",))[0]) and len(v.args) == 1 and not v.keywords):
            l = v.func.value.id                                          # s.remove(e): KeyError if absent
            lty, lt = env[l]
            ty, t = self.ex(v.args[0], env)
            unify(s, ("set", Cell(ty)), lty, "removed element")
            pre = self.take_pre()
            cn, env = self.bind_local(s, l, lty, env)
            return self.wrap(pre, ("bind", cn, "(py_set_remove %s %s %s)" % (self.elem_eqb(s, lty), lt, t), go(env)))
        bad(s, "expression statement other than l.append(e) / s.remove(e)")

    def if_(self, s, rest, env, k, after):
        t, neg = s.test, False
        if isinstance(t, ast.UnaryOp) and isinstance(t.op, ast.Not):
            t, neg = t.operand, True
        if isinstance(t, ast.Call) and dotted(t.func) == "isinstance":
            return self.isinstance_(s, t, neg, rest, env, k, after)
        if (not neg and isinstance(t, ast.Compare) and len(t.ops) == 1 and isinstance(t.ops[0], ast.Is) and isinstance(t.left, ast.Name)
                and isinstance(t.comparators[0], ast.Constant) and t.comparators[0].value is None
                and env.get(t.left.id, ("",))[0] == "optdialect"):
            # `if dialect is None: dialect = <module constant bound to a dialect class>`: from here on `dialect` is a dialect
            x, a = t.left.id, s.body[0] if len(s.body) == 1 else None
            if not (s.orelse == [] and isinstance(a, ast.Assign) and len(a.targets) == 1 and isinstance(a.targets[0], ast.Name)
                    and a.targets[0].id == x and isinstance(a.value, ast.Name) and a.value.id not in env):
                bad(s, "`if %s is None:` followed by something other than `%s = <DEFAULT>`" % (x, x))
            old, dflt = env[x][1], self.tr.dialect_const(a.value.id, a)
            cn, env = self.bind_local(a.targets[0], x, "dialect", env, t)
            return ("let", cn, "(match %s with Some h0 => h0 | None => %s end)" % (old, dflt), self.block(rest, env, k, after))
        if (isinstance(t, ast.Call) and dotted(t.func) == "_is_str" and "_is_str" not in env
                and self.mod.imports.get("_is_str") == "netaddr.compat._is_str" and compat_lambda_isinstance("_is_str")):
            # _is_str(x): true for a value the translator types as text, false for an int
            if len(t.args) != 1 or t.keywords or not isinstance(t.args[0], ast.Name) or env.get(t.args[0].id, ("",))[0] not in ("str", "int"):
                bad(s, "_is_str test on something that is neither text nor an int")
            yes = (env[t.args[0].id][0] == "str") != neg
            return self.block((s.body if yes else s.orelse) + rest, env, k, after)
        if isinstance(t, ast.Call) and dotted(t.func) == "hasattr" and "hasattr" not in env and not self.mod.toplevel("hasattr"):
            # hasattr(<parameter>, '<name>'): decided by the declared type of the parameter
            if not (len(t.args) == 2 and not t.keywords and isinstance(t.args[0], ast.Name) and t.args[0].id in [x.arg for x in self.f.args.args]
                    and isinstance(t.args[1], ast.Constant) and isinstance(t.args[1].value, str) and t.args[0].id in env):
                bad(s, "hasattr test other than hasattr(<parameter>, '<name>')")
            ty = env[t.args[0].id][0]
            if t.args[0].id not in self.ptypes_declared or (ty if isinstance(ty, str) else ty[0], t.args[1].value) not in HASATTR:
                bad(s, "hasattr(%s, %r) is not decided by the declared type %s" % (t.args[0].id, t.args[1].value, show(ty)))
            yes = HASATTR[(ty if isinstance(ty, str) else ty[0], t.args[1].value)] != neg
            return self.block((s.body if yes else s.orelse) + rest, env, k, after)
        c = self.bool_(s.test, env)
        pre = self.take_pre()
        exits = (ast.Return, ast.Raise, ast.Break, ast.Continue, ast.Try)
        if not any(isinstance(n, exits) for st in s.body + s.orelse for n in ast.walk(st)):
            snap = self.snapshot()
            try:
                return self.wrap(pre, self.join(s, c, rest, env, k, after))
            except NoJoin:
                self.restore(snap)
        return self.wrap(pre, ("if", c, self.block(s.body + rest, env, k, after), self.block(s.orelse + rest, env, k, after)))

    def join(self, s, c, rest, env, k, after):
        """`if` whose branches fall through: the locals assigned in it are joined, the rest of the block follows once"""
        names, ends = assigned_names(s.body + s.orelse), []

        def end(e):
            ends.append(e)
            return ("jret", e)
        a, b = self.block(s.body, env, end, rest + after), self.block(s.orelse, env, end, rest + after)
        if any(e["@mut"] != env["@mut"] for e in ends):
            raise NoJoin()
        for key, val in env.items():                # compile-time bindings (None, classes, iterators) must come out unchanged
            if not key.startswith("@") and not is_value(val[0]) and any(e.get(key) != val for e in ends):
                raise NoJoin()
        joined = [x for x in names if all(x in e and is_value(e[x][0]) for e in ends)]
        if not joined or any(x in env for x in names if x not in joined):
            raise NoJoin()
        env = dict(env)
        for x in names:
            env.pop(x, None)                         # bound on one side only: unbound from here on
        for x in joined:
            try:
                for e in ends[1:]:
                    unify(s, e[x][0], ends[0][x][0], "branches of if")
            except Untranslatable:
                raise NoJoin()
            env[x] = (ends[0][x][0], self.coqname(s, x))
        env["@taint"] = frozenset().union(*[e["@taint"] for e in ends]) - (set(names) - set(joined))

        def close(ir):                               # the pending ends of THIS join become tuples of the joined variables
            if ir[0] == "jret" and isinstance(ir[1], dict):
                return ("jret", tuple_term([ir[1][x][1] for x in joined]))
            return tuple(close(x) if isinstance(x, tuple) and x and isinstance(x[0], str) else
                         [(kd, ns, close(sub)) for kd, ns, sub in x] if isinstance(x, list) else x for x in ir)
        return ("join", pattern([env[x][1] for x in joined]), ("if", c, close(a), close(b)), self.block(rest, env, k, after))

    def isinstance_(self, s, t, neg, rest, env, k, after):
        if len(t.args) != 2 or t.keywords or not isinstance(t.args[0], ast.Name):
            bad(s, "isinstance test on something other than a name")
        x = t.args[0].id
        ty = env.get(x, ("",))[0]
        yes, no = (s.orelse, s.body) if neg else (s.body, s.orelse)
        if ty == "sarg":
            if dotted(t.args[1]) != "_int_type" or self.mod.imports.get("_int_type") != "netaddr.compat._int_type":
                bad(s, "isinstance test other than isinstance(<sarg parameter>, _int_type)")
            ienv = dict(env)
            ienv[x] = ("int", env[x][1])
            return ("match", env[x][1], self.block(yes + rest, ienv, k, after), self.block(no + rest, env, k, after))
        if ty == "operand":                                   # split into the four kinds, then decide the test in each arm
            arms = []
            for kind, fields in OPERAND:
                aenv = dict(env)
                names = [self.coqname(s, "%s_%s" % (x, f)) for f in fields]
                aenv[x] = (("opnd", kind, dict(zip(fields, names))), None)
                arms.append((kind, names, self.block([s] + rest, aenv, k, after)))
            return ("omatch", env[x][1], arms)
        if isinstance(ty, tuple) and ty[0] == "opnd":
            if not isinstance(t.args[1], ast.Name):
                bad(s, "isinstance against something other than a class name")
            return self.block((yes if self.isinst(s, ty[1], t.args[1].id) else no) + rest, env, k, after)
        bad(s, "isinstance test on %s, which is neither an `sarg` nor an `operand` parameter" % x)

    def try_except(self, s, rest, env, k, after):
        """try: body / except E1: raise E2(..)  ->  do <variables assigned in body> <- py_except E1 E2 (body); rest.
        The handler covers exactly the body; E1 is matched by class (no listed exception class derives from another one)."""
        h = s.handlers[0] if len(s.handlers) == 1 else None
        exits = (ast.Return, ast.Break, ast.Continue, ast.Try, ast.While, ast.For)
        if (h is None or s.orelse or s.finalbody or not isinstance(h.type, ast.Name) or h.type.id not in EXN or h.type.id in env
                or self.mod.toplevel(h.type.id) and h.type.id not in self.mod.imports
                or len(h.body) != 1 or not isinstance(h.body[0], ast.Raise) or env["@mut"]
                or any(isinstance(n, exits) for st in s.body for n in ast.walk(st))):
            bad(s, "try statement other than `try: <assignments, if, raise> / except E1: raise E2(..)`")
        if h.name and any(isinstance(n, ast.Name) and n.id == h.name for st in rest + after for n in ast.walk(st)):
            bad(s, "exception variable %s used after the handler" % h.name)
        e2 = self.block(h.body, {**env, "@break": None}, None, [])[1]
        names, ends = assigned_names(s.body), []

        def end(e):
            ends.append(e)
            return ("jret", e)
        body = self.block(s.body, env, end, rest + after)
        exported = [x for x in names if ends and all(x in e and (is_value(e[x][0]) or e[x][0] == "obj") for e in ends)]
        for key, val in env.items():                # compile-time bindings must come out unchanged, or be dead
            if not key.startswith("@") and key not in exported and any(e.get(key) != val for e in ends):
                if key in loaded_names(rest + after):
                    bad(s, "%s is rebound inside try to something that is no Coq value and read afterwards" % key)
        env = dict(env)
        for x in names:
            env.pop(x, None)
        cns = []
        for x in exported:
            for e in ends[1:]:
                unify(s, e[x][0], ends[0][x][0], "ends of the try body")
            cn = self.coqname(s, x)
            cns.append(cn)
            env[x] = ("obj", self.objvar(cn)) if ends[0][x][0] == "obj" else (ends[0][x][0], cn)
        env["@taint"] = frozenset().union(env["@taint"], *[e["@taint"] for e in ends]) - (set(names) - set(exported))

        def close(ir):
            if ir[0] == "jret" and isinstance(ir[1], dict):
                return ("jret", tuple_term([ir[1][x][1][3] if ir[1][x][0] == "obj" else ir[1][x][1] for x in exported]))
            return tuple(close(x) if isinstance(x, tuple) and x and isinstance(x[0], str) else
                         [(kd, ns, close(sub)) for kd, ns, sub in x] if isinstance(x, list) else x for x in ir)
        return ("try", h.type.id, e2, pattern(cns), close(body), self.block(rest, env, k, after))

    def only_builtins(self, stmts, env):
        """does every name read by the statements denote a local or one of the builtins the translator knows (so that no
        NameError can arise)?"""
        known = ("bin", "int", "len", "bool", "min", "max")
        return all(n.id in env or (n.id in known and not self.mod.toplevel(n.id)) for st in stmts for n in ast.walk(st)
                   if isinstance(n, ast.Name) and isinstance(n.ctx, ast.Load))

    def try_pass(self, s, rest, env, k, after):
        """try: body / except E: pass, where body assigns nothing (it may `return`):
        do h <- py_except_pass E (body: inl <returned value> | inr tt at its end); match h with inl r => r | inr _ => rest"""
        h = s.handlers[0]
        exits = (ast.Break, ast.Continue, ast.Try, ast.While, ast.For)
        if (s.orelse or s.finalbody or not isinstance(h.type, ast.Name) or h.type.id not in EXN or h.type.id in env or h.name
                or (self.mod.toplevel(h.type.id) and h.type.id not in self.mod.imports) or env["@mut"] or env["@break"] is not None
                or assigned_names(s.body) or any(isinstance(n, exits) for st in s.body for n in ast.walk(st))):
            bad(s, "try statement other than `try: <if / return / raise, no assignment> / except E: pass` outside loops")
        benv = dict(env)
        benv["@break"], benv["@continue"], benv["@lret"] = (lambda e: None), None, True      # `return` inside: the body answers inl
        body = self.block(s.body, benv, lambda e: ("ret", "@loop", "(inr tt)", False), rest + after)
        hn, rn = self.fresh(), self.fresh()
        return ("trypass", h.type.id, hn, rn, body, self.block(rest, env, k, after))

    def try_next(self, s, env, go):
        """try: x = [IPNetwork(]_iter_next(it)[)] ... except StopIteration: raise E(...)  ->  match it with [] => Raise E | x :: it => ..."""
        h = s.handlers[0] if len(s.handlers) == 1 else None
        if (h is None or s.orelse or s.finalbody or dotted(h.type) != "StopIteration" or h.name or len(h.body) != 1
                or not isinstance(h.body[0], ast.Raise) or self.mod.imports.get("_iter_next") != "netaddr.compat._iter_next"):
            bad(s, "try statement other than `try: x = _iter_next(it) ... except StopIteration: raise E`")
        exc = self.block(h.body, env, None, [])

        def step(i, env):
            if i == len(s.body):
                return go(env)
            st = s.body[i]
            v = st.value if isinstance(st, ast.Assign) and len(st.targets) == 1 and isinstance(st.targets[0], ast.Name) else None
            conv = isinstance(v, ast.Call) and dotted(v.func) == "IPNetwork" and len(v.args) == 1 and not v.keywords
            nx = v.args[0] if conv else v
            if not (isinstance(nx, ast.Call) and dotted(nx.func) == "_iter_next" and len(nx.args) == 1 and not nx.keywords
                    and isinstance(nx.args[0], ast.Name) and env.get(nx.args[0].id, ("",))[0][0] == "iter"):
                bad(st, "statement inside try other than x = [IPNetwork(]_iter_next(<iterator>)[)]")
            it = nx.args[0].id
            ity, itt = env[it]
            elem = ity[1].find().t
            if elem is None or (conv and elem != "net"):
                bad(st, "IPNetwork(x) of %s (only an IPNetwork-valued x is the identity)" % show(elem or "?"))
            env = dict(env)
            env[it] = (ity, self.coqname(st, it))
            cn, env = self.bind_local(st.targets[0], st.targets[0].id, elem, env, v)
            return ("next", itt, cn, env[it][1], exc, step(i + 1, env))
        return step(0, env)

    def loop(self, s, rest, env, k, after):
        """while / for -> a Fixpoint (class Loop) and its call; see the module docstring"""
        iswhile = isinstance(s, ast.While)
        if s.orelse or env["@mut"]:
            bad(s, "loop with else / loop after a state assignment")
        nested = env["@break"] is not None
        has_ret = any(isinstance(n, ast.Return) for st in s.body for n in ast.walk(st))
        if nested and has_ret:
            bad(s, "return inside a nested loop")
        name = "%s_loop%d" % (self.cname, self.loopno[id(s)])
        assigned, loads = assigned_names(s.body), loaded_names(([s.test] if iswhile else []) + s.body)
        it = target = elem = itterm = counter = ccn = None
        iterpre, israng = [], False
        if not iswhile:
            tnode, itexpr = s.target, s.iter
            if (self.builtin_call(itexpr, "enumerate", env, 1) and isinstance(tnode, ast.Tuple) and len(tnode.elts) == 2
                    and all(isinstance(x, ast.Name) for x in tnode.elts)):
                counter, tnode, itexpr = tnode.elts[0].id, tnode.elts[1], itexpr.args[0]   # for i, x in enumerate(xs): i = 0, 1, ..
                if counter in env or counter in assigned or counter == tnode.id:
                    bad(s, "enumerate() counter %s is bound before the loop or assigned in it" % counter)
            if not isinstance(tnode, ast.Name):
                bad(s, "for loop other than `for <name> in <list>` / `for i, x in enumerate(<list>)` / `for _ in range(n)`")
            target = tnode.id
            if self.builtin_call(itexpr, "range", env, 1) and counter is None:
                # for _ in range(n): n iterations (none for n <= 0); the loop variable itself is not translated
                if target in loads or target in env:
                    bad(s, "loop variable %s of range() is read (or bound before)" % target)
                israng, itterm, elem, target = True, "(Z.to_nat %s)" % self.int_(itexpr.args[0], env), "unit", None
                iterpre = self.take_pre()
            elif (isinstance(itexpr, ast.Name) and itexpr.id in env and isinstance(env[itexpr.id][0], tuple)
                    and env[itexpr.id][0][0] in ("list", "iter")):
                it, (itty, itterm) = itexpr.id, env[itexpr.id]
            else:                                        # `for x in <expression>`: the list is computed once, before the loop
                itty, itterm = self.listexpr(itexpr, env)
                if not is_list(itty):
                    bad(s, "for loop over %s" % show(itty))
                iterpre = self.take_pre()
            if not israng:
                elem = itty[1].find().t
                if elem is None or it in assigned or target in env or target in assigned_names(s.body):
                    bad(s, "for loop over a list of unknown element type, or that rebinds its list or its loop variable")
        later = loaded_names(rest + after)
        carried = [x for x in assigned if x in env and x != target]
        for x in carried:
            if not is_value(env[x][0]):
                bad(s, "loop assigns %s, a %s" % (x, show(env[x][0])))
        inv = [x for x in loads if x in env and x not in carried and x != it and is_value(env[x][0])]
        for x in loads:
            if x in env and x != it and x not in inv + carried and env[x][0] not in ("none", "cls"):
                bad(s, "loop reads %s, a %s" % (x, show(env[x][0])))
        live = [x for x in carried if x in later]
        inside = {id(n) for st in s.body for n in ast.walk(st)}      # (an enclosing loop puts this very loop into `after`)
        if any(isinstance(n, ast.Name) and n.id in (target, counter) and isinstance(n.ctx, ast.Load) and id(n) not in inside
               for st in rest + after for n in ast.walk(st)):
            bad(s, "loop variable %s read after the loop" % target)
        state = list(STATE[self.recv]) if "self" in loads else []
        ienv = {key: val for key, val in env.items() if key.startswith("@") or val[0] in ("none", "cls")}
        params = [(self.coqname(s, x), env[x][0]) for x in inv + carried]
        for x, (cn, ty) in zip(inv + carried, params):
            ienv[x] = (ty, cn)
        if any(x in env["@taint"] for x in loads):       # a value computed in one iteration is read in the next one
            ienv["@taint"] = env["@taint"] | frozenset(assigned)

        def result(e):                                   # the loop stops in environment e
            for x in live:
                if x not in e:
                    bad(s, "%s may be unbound when the loop stops" % x)
                unify(s, e[x][0], env[x][0], "loop variable %s" % x)
            t = tuple_term([e[x][1] for x in live])
            return ("ret", "@loop", "(inr %s)" % t if has_ret else t, False)

        def again(e):                                    # next iteration in environment e
            for x in carried:
                if x not in e:
                    bad(s, "%s may be unbound at the end of the loop body" % x)
                unify(s, e[x][0], env[x][0], "loop variable %s" % x)
            args = (["fuel'"] * iswhile + state + [ienv[x][1] for x in inv] + ["fuel'" if israng else "xs'"] * (not iswhile)
                    + ["(%s + 1)" % ccn] * (counter is not None) + [e[x][1] for x in carried])
            return ("ret", "@loop", "(%s)" % " ".join([name] + args), True)
        ienv["@break"], ienv["@continue"], ienv["@lret"] = result, again, has_ret
        ahead = [s] + rest + after
        if iswhile:
            c = self.bool_(s.test, ienv)
            ir = self.wrap(self.take_pre(), ("if", c, self.block(s.body, ienv, again, ahead), result(ienv)))
            outcome, ps = True, [(x, "int") for x in state] + params
        else:
            tcn, benv = ("_", ienv) if israng else self.bind_local(s.target, target, elem, ienv, s.iter)
            if counter is not None:
                ccn, benv = self.bind_local(s.target, counter, "int", benv)
            ir = (result(ienv), self.block(s.body, benv, again, ahead))
            outcome = any(self.effects(x) for x in ir)
            ps = ([(x, "int") for x in state] + params[:len(inv)], [(ccn, "int")] * (counter is not None) + params[len(inv):])
        L = Loop(name, s, iswhile, ps, tuple_type([env[x][0] for x in live]), ir, outcome, elem, None if iswhile else tcn, has_ret, israng)
        if id(s) in self.loopmemo:
            if repr(self.loopmemo[id(s)].ir) != repr(ir):
                bad(s, "loop reached in two different contexts")
        else:
            self.loopmemo[id(s)] = L
            self.loops.append(L)
        # the call
        args = (state + [env[x][1] for x in inv] + ([itterm] if not iswhile else []) + ["0"] * (counter is not None)
                + [env[x][1] for x in carried])
        if iswhile:
            spec = FUEL.get((self.recv, self.name, self.loopno[id(s)]))
            if spec is None:
                bad(s, "while loop %d of %s has no entry in the translator's FUEL table" % (self.loopno[id(s)], self.name))
            args = ["(Z.to_nat %s + %d)" % (self.int_(ast.parse(spec[0], mode="eval").body, env), spec[1])] + args
            if self.take_pre():
                bad(s, "fuel expression that can raise")
        env2 = {key: val for key, val in env.items() if key not in carried}
        for x in live:
            self.no_iterator_over(s, self.coqname(s, x), env)
            env2[x] = (env[x][0], self.coqname(s, x))
        env2["@taint"] = ienv["@taint"] - (set(assigned) - set(live))
        env2["@raw"] = env["@raw"] | {n.value.id for st in s.body for n in ast.walk(st)
                                      if isinstance(n, ast.Attribute) and isinstance(n.ctx, ast.Store) and isinstance(n.value, ast.Name)}
        if it and env[it][0][0] == "iter":
            if any(isinstance(n, ast.Break) for st in s.body for n in ast.walk(st)):
                env2.pop(it)
            else:
                env2[it] = (env[it][0], "[]")                # exhausted
        pat = pattern([env2[x][1] for x in live])
        if has_ret:         # inl r: the body returned r; inr <variables>: the loop ended
            h = self.fresh()
            return self.wrap(iterpre, ("bind" if outcome else "let", h, "(%s)" % " ".join([name] + args),
                                       ("lmatch", h, self.fresh(), pat, self.block(rest, env2, k, after))))
        return self.wrap(iterpre, ("bind" if outcome else "let", pat, "(%s)" % " ".join([name] + args), self.block(rest, env2, k, after)))

    # ---- result type and text
    @staticmethod
    def children(ir):
        k = ir[0]
        return ([ir[3]] if k in ("let", "bind") else [ir[2], ir[3]] if k in ("if", "match", "join") else [ir[4], ir[5]] if k == "next"
                else [a[2] for a in ir[2]] if k == "omatch" else [ir[4]] if k == "lmatch" else [ir[4], ir[5]] if k in ("try", "trypass") else [])

    def leaves(self, ir):
        return [ir] if ir[0] in ("ret", "raise") else [x for sub in self.children(ir) for x in self.leaves(sub)]

    def effects(self, ir):
        """can evaluating this IR raise (does it have to live in `outcome`)?"""
        return ir[0] in ("raise", "bind", "next", "try", "trypass") or (ir[0] == "ret" and ir[1] != "@loop" and ir[3]) or (ir[0] == "lret" and ir[3]) or any(
            self.effects(x) for x in self.children(ir))

    def finish(self):
        rets = [l for l in self.leaves(self.ir) if l[0] == "ret" and l[1] != "@loop"]      # (@loop: the end of a try body)
        kinds = [l[1] for l in rets if l[1] != "none"] + self.lrets
        if not kinds:
            bad(self.f, "no return value")
        for kd in kinds[1:]:
            unify(self.f, kd, kinds[0], "return values")
        self.kind = kinds[0]
        self.optional = any(l[1] == "none" for l in rets)
        if self.optional and (self.lrets or self.mutating):
            bad(self.f, "None on some paths of a function that returns from inside a loop or assigns the object state")
        self.retkind = self.kind
        self.outcome = self.kind in ("obj", "net", "self") or self.effects(self.ir)
        base = "(option %s)" % coqty(self.kind, self.f) if self.optional else coqty(self.kind, self.f)
        self.type = "outcome " + base if self.outcome else unparen(base)
        self.kind = "int" if self.kind == "self" else self.kind
        self.fresh = bool(rets) and all(l[3] and str(l[2]).startswith(("(mk_net ", "(mk_eui ")) for l in rets)   # every result is a new object

    def render(self, ir, ind, oc, optional=False):
        """text of an IR; oc: does the value live in `outcome`"""
        k = ir[0]
        if k == "ret":
            _, kind, term, wrapped = ir
            if wrapped:
                return "omap Some %s" % term if optional else term
            t = "None" if kind == "none" else ("(Some %s)" % term if optional else term)
            return "Ok %s" % t if oc else t
        if k == "lret":
            return ("omap inl %s" % ir[2]) if ir[3] else ("Ok (inl %s)" % ir[2] if oc else "(inl %s)" % ir[2])
        if k == "jret":
            return "Ok %s" % ir[1] if oc else ir[1]
        if k == "raise":
            return "Raise %s" % ir[1]
        i2 = ind + "  "
        sub = lambda x, o=oc: self.render(x, i2, o, optional) if x[0] in ("ret", "raise", "jret", "lret") else "(" + self.render(x, i2 + " ", o, optional) + ")"
        if k == "let":
            body = self.render(ir[3], ind, oc, optional)
            if ir[2] == "[]" and re.fullmatch(r"\w+", ir[1]) and not re.search(r"\b%s\b" % re.escape(ir[1]), body):
                return body                  # an empty list that is never used (its element type cannot be known): dropped
            return "let %s := %s in\n%s%s" % (ir[1].replace("(", "'(", 1), ir[2], ind, body)
        if k == "bind":
            return "do %s <- %s;\n%s%s" % (ir[1], ir[2], ind, self.render(ir[3], ind, oc, optional))
        if k == "if":
            return "if %s then\n%s%s\n%selse\n%s%s" % (ir[1], i2, sub(ir[2]), ind, i2, sub(ir[3]))
        if k == "join":
            o = self.effects(ir[2])
            _, c, a, b = ir[2]
            i3 = ind + "     "
            body = "if %s then\n%s%s\n%s   else\n%s%s" % (c, i3, self.arm(a, i3, o), ind, i3, self.arm(b, i3, o))
            return ("do %s <-\n%s  (%s);\n%s%s" if o else "let %s :=\n%s  (%s) in\n%s%s") % (
                ir[1] if o else ir[1].replace("(", "'(", 1), ind, body, ind, self.render(ir[3], ind, oc, optional))
        if k == "match":
            return "match %s with\n%s| SInt %s =>\n%s%s\n%s| _ =>\n%s%s\n%send" % (
                ir[1], ind, ir[1], i2, sub(ir[2]), ind, i2, sub(ir[3]), ind)
        if k == "next":
            return "match %s with\n%s| [] =>\n%s%s\n%s| %s :: %s =>\n%s%s\n%send" % (
                ir[1], ind, i2, sub(ir[4]), ind, ir[2], ir[3], i2, sub(ir[5]), ind)
        if k == "try":
            return "do %s <- py_except %s %s\n%s  (%s);\n%s%s" % (ir[3], ir[1], ir[2], ind, self.render(ir[4], ind + "   ", True, False), ind,
                                                                   self.render(ir[5], ind, oc, optional))
        if k == "trypass":
            return "do %s <- py_except_pass %s\n%s  (%s);\n%smatch %s with\n%s| inl %s => Ok %s\n%s| inr _ =>\n%s%s\n%send" % (
                ir[2], ir[1], ind, self.render(ir[4], ind + "   ", True, False), ind, ir[2], ind, ir[3], ir[3], ind, i2, sub(ir[5]), ind)
        if k == "lmatch":
            return "match %s with\n%s| inl %s => %s\n%s| inr %s =>\n%s%s\n%send" % (
                ir[1], ind, ir[2], ("Ok %s" if oc else "%s") % ir[2], ind, ir[3], i2, sub(ir[4]), ind)
        if k == "omatch":
            return "match %s with\n%s%send" % (ir[1], "".join("%s| %s =>\n%s%s\n" % (ind, " ".join([kd] + ns), i2, sub(a)) for kd, ns, a in ir[2]), ind)
        raise AssertionError(k)

    def arm(self, ir, ind, oc):
        """one branch of a join; `let x := e in x` is written e"""
        if ir[0] == "let" and ir[3] == ("jret", ir[1]) and not oc:
            return ir[2]
        return self.render(ir, ind, oc) if ir[0] in ("ret", "raise", "jret", "lret") else "(" + self.render(ir, ind + " ", oc) + ")"

    def what(self):
        if self.recv is None:
            return self.name
        what = "%s.%s%s" % (self.owner, self.pyname, " (property)" if self.is_prop else "")
        if self.name != self.pyname:
            what += ", specialised to %s" % ", ".join("%s : %s" % (cn, show(ty)) for cn, ty in self.params)
        return what + (", receiver class %s" % self.recv if self.owner != self.recv else "")

    def text(self):
        first = min([self.f.lineno] + [d.lineno for d in self.f.decorator_list])
        ps = ("(%s : Z)" % " ".join(STATE[self.recv]) if STATE[self.recv] else "") + "".join(
            " (%s : %s)" % (cn, unparen(coqty(ty, self.f))) for cn, ty in self.statevars + self.params)
        return "".join(L.text(self) + "\n" for L in self.loops) + "(* %s: %s, lines %d-%d *)\nDefinition %s %s : %s :=\n  %s.\n" % (
            self.mod.fn, self.what(), first, self.f.end_lineno, self.cname, ps.strip(), self.type,
            self.render(self.ir, "  ", self.outcome, self.optional))


# ---- SRCE: class FnE -- the additional constructs of the SRCE units (documented in the docstring paragraph "SRCE").  Everything
# here is additive: a construct FnE does not recognise goes to the base class unchanged, and only the units of SRCE_UNITS use FnE.
COQTY.update(SRCE_TYPES)
RESERVED |= set("mitem MNet MRange rtuple py_index py_setitem py_delitem py_net_of_addr py_net_of_cidr_text py_gen_take "
                "py_sort_ranges nth_o set_nth del_nth py_norm_index py_sorted_nets py_num_bits hash_ "
                "py_tuple_eq py_tuple_ne py_tuple_lt py_tuple_le py_tuple_gt py_tuple_ge py_int_to_bytes py_fmt_hex "
                "py_mod_int_to_bits py_mod_int_to_bin py_mod_int_to_words py_mod_int_to_packed py_mod_int_to_arpa".split())
TUPLE_CMP = {ast.Eq: "py_tuple_eq", ast.NotEq: "py_tuple_ne", ast.Lt: "py_tuple_lt", ast.LtE: "py_tuple_le", ast.Gt: "py_tuple_gt",
             ast.GtE: "py_tuple_ge"}


def core_num_bits_ok():
    """is netaddr.core.num_bits still `def num_bits(int_val): return int_val.bit_length()` (first definition, inside the module's
    `try:` that probes for int.bit_length; the fallback loop under `except AttributeError` is dead on every supported Python)?"""
    fn = "netaddr/core.py"
    tree = ast.parse(open(os.path.join(REPO, fn), encoding="utf-8").read())
    tries = [t for t in tree.body if isinstance(t, ast.Try) and any(isinstance(n, ast.FunctionDef) and n.name == "num_bits" for n in ast.walk(t))]
    defs = [n for n in ast.walk(tree) if isinstance(n, ast.FunctionDef) and n.name == "num_bits"]
    other = [n for n in ast.walk(tree) if isinstance(n, ast.Name) and n.id == "num_bits" and isinstance(n.ctx, ast.Store)]
    ok = len(tries) == 1 and not other and 1 <= len(defs) <= 2
    if ok:
        d = [st for st in tries[0].body if isinstance(st, ast.FunctionDef) and st.name == "num_bits"]
        hs = tries[0].handlers
        ok = (len(d) == 1 and len(hs) == 1 and dotted(hs[0].type) == "AttributeError" and not tries[0].orelse and not tries[0].finalbody
              and all(n in d or any(n in ast.walk(h) for h in hs) for n in defs))
    if ok:
        body = [st for st in d[0].body if not (isinstance(st, ast.Expr) and isinstance(st.value, ast.Constant))]
        a = d[0].args
        ok = (len(a.args) == 1 and not (a.vararg or a.kwarg or a.kwonlyargs or a.defaults) and not d[0].decorator_list and len(body) == 1
              and isinstance(body[0], ast.Return) and isinstance(body[0].value, ast.Call) and not body[0].value.args
              and not body[0].value.keywords and dotted(body[0].value.func) == a.args[0].arg + ".bit_length")
    if not ok:
        bad(defs[0] if defs else None, "core.num_bits is not `return int_val.bit_length()` the way the translator assumes", fn)
    return True
_is_value_base, _assigned_names_base = is_value, assigned_names


def is_value(t):
    return t in SRCE_TYPES or _is_value_base(t)


def assigned_names(stmts):
    """as before, plus the lists changed by `l[i] = e` / `del l[i]`"""
    base, extra = _assigned_names_base(stmts), []
    for st in stmts:
        for n in ast.walk(st):
            if isinstance(n, ast.Subscript) and isinstance(n.ctx, (ast.Store, ast.Del)) and isinstance(n.value, ast.Name):
                if n.value.id not in base and n.value.id not in extra:
                    extra.append(n.value.id)
    return base + extra


class FnE(Fn):
    GEN_STATE_TYPES = ("int", "bool", "net", "ipstr", "optint")

    def __init__(self, tr, recv, name, ptypes):
        self.variant, self.yield_ids, self.gen_state = name.partition(":")[2], set(), None
        if self.variant == "next":          # one resumption of a generator: its parameters are the state the prologue leaves
            ptypes = dict(tr.get(recv, name.partition(":")[0] + ":start").gen_state)
        super().__init__(tr, recv, name, ptypes)

    # ---- generators: `<prologue>; while c: <body>; yield e` -> the two definitions <f>_start / <f>_next
    def prepare(self, f):
        if self.variant == "mixin":         # the definition of IPListMixin itself, for a receiver class that overrides it
            r = self.mod.lookup("IPListMixin", self.pyname)
            if r is None or r[2]:
                bad(f, "IPListMixin.%s not found" % self.pyname)
            self.owner = r[0]
            return r[1]
        if self.variant not in ("start", "next"):
            return f
        import copy
        f = copy.deepcopy(f)
        doc = f.body[:1] if (f.body and isinstance(f.body[0], ast.Expr) and isinstance(f.body[0].value, ast.Constant)
                             and isinstance(f.body[0].value.value, str)) else []
        stmts = f.body[len(doc):]
        loop = stmts[-1] if stmts else None
        ys = [n for n in ast.walk(f) if isinstance(n, (ast.Yield, ast.YieldFrom))]
        if not (isinstance(loop, ast.While) and not loop.orelse and len(ys) == 1 and isinstance(ys[0], ast.Yield) and ys[0].value is not None
                and isinstance(loop.body[-1], ast.Expr) and loop.body[-1].value is ys[0]):
            bad(f, "generator other than `<prologue>; while c: <body>; yield e` (one yield, last statement of the loop, which ends the function)")
        if any(isinstance(n, (ast.While, ast.For, ast.Continue, ast.Return, ast.Try)) for st in loop.body for n in ast.walk(st)):
            bad(loop, "loop / continue / return / try inside the loop of a generator")
        prologue = stmts[:-1]
        if any(isinstance(n, (ast.While, ast.For)) for st in prologue for n in ast.walk(st)):
            bad(f, "loop in the prologue of a generator")
        bound = [a.arg for a in f.args.args if a.arg != "self"] + assigned_names(prologue)
        state = [x for x in loaded_names([loop.test] + loop.body) if x in bound]
        if self.variant == "start":
            ret = ast.copy_location(ast.Return(value=None), loop)
            ret.gen_state = state
            f.body = doc + prologue + [ret]
            return ast.fix_missing_locations(f)

        class B(ast.NodeTransformer):       # (no nested loop: every break belongs to the generator's loop)
            def visit_Break(self, n):
                return ast.copy_location(ast.Return(value=None), n)
        y = loop.body[-1]
        ret = ast.copy_location(ast.Return(value=y.value.value), y)
        ret.gen_yield = state
        if isinstance(ret.value, ast.Name):
            self.yield_ids = {id(ret.value)}
        body = [B().visit(st) for st in loop.body[:-1]] + [ret]
        f.body = doc + [ast.copy_location(ast.If(test=loop.test, body=body, orelse=[]), loop), ast.copy_location(ast.Return(value=None), loop)]
        f.args.args = [a for a in f.args.args if a.arg == "self"] + [ast.copy_location(ast.arg(arg=x), f) for x in state]
        f.args.defaults = []
        return ast.fix_missing_locations(f)

    def state_tuple(self, node, names, env):
        out = []
        for x in names:
            ty = env.get(x, (None,))[0]
            if ty not in self.GEN_STATE_TYPES:
                bad(node, "generator state variable %s is %s" % (x, "unbound on some path" if ty is None else show(ty)))
            if self.variant == "next" and dict(self.params_declared).get(x) != ty:
                bad(node, "generator state variable %s changes its type in the loop" % x)
            out.append((x, ty, env[x][1]))
        return out

    def what(self):
        if self.variant not in ("start", "next", "mixin"):
            return super().what()
        w = self.pyname if self.recv is None else "%s.%s" % (self.owner, self.pyname)
        w += {"start": ", generator prologue", "next": ", one resumption of the generator", "mixin": ""}[self.variant]
        return w + (", receiver class %s" % self.recv if self.recv is not None and self.owner != self.recv else "")

    def owned(self, x):
        """as Fn.owned; the yielded object may also be named (it leaves the function there)"""
        bases = {id(n.value) for n in ast.walk(self.f) if isinstance(n, ast.Attribute)} | self.yield_ids
        bases |= {id(n.value) for n in ast.walk(self.f) if isinstance(n, ast.Return) and isinstance(n.value, ast.Name)}
        binds = [st for st in ast.walk(self.f) if isinstance(st, (ast.Assign, ast.AugAssign, ast.For, ast.With, ast.NamedExpr))
                 and any(isinstance(n, ast.Name) and n.id == x and isinstance(n.ctx, ast.Store) and id(n) not in bases for n in ast.walk(st))]
        return (all(id(st) in self.freshbind for st in binds) and x not in [a.arg for a in self.f.args.args]
                and all(id(n) in bases for n in ast.walk(self.f) if isinstance(n, ast.Name) and n.id == x and isinstance(n.ctx, ast.Load)))

    # ---- helpers
    @staticmethod
    def net_state(t):
        return "(nver %s) (width (nver %s)) (nval %s) (nplen %s)" % (t, t, t, t)

    def inline_pre(self, pre, tail):
        """text of `tail` (an outcome term) after the hoisted items `pre`, on one line"""
        for it in reversed(pre):
            tail = ("(if %s then Raise %s else %s)" % (it[1], it[2], tail)) if it[0] == "guard" else "(do %s <- %s; %s)" % (it[1], it[2], tail)
        return tail

    def boolop_sc(self, node, env):
        """`a and b` / `a or b` whose later operands can raise: short-circuit evaluation in `outcome`"""
        isand, v0, refined = isinstance(node.op, ast.And), node.values[0], None
        if isand and self.is_not_none(v0, env):          # `x is not None and ..` for x : None or an IPNetwork: x is the object from there on
            refined, env = (env[v0.left.id][1], self.fresh()), dict(env)
            env[v0.left.id] = ("net", refined[1])
            first = None
        else:
            first = self.bool_(node.values[0], env)
        parts = []
        for x in node.values[1:]:
            saved, self.pre, nh, self.nohoist = self.pre, [], self.nohoist, 0
            try:
                t = self.bool_(x, env)
            finally:
                inner, self.pre, self.nohoist = self.pre, saved, nh
            parts.append((inner, t))
        acc = None
        for inner, t in reversed(parts):
            tail = "Ok %s" % t if acc is None else ("(if %s then %s else Ok false)" if isand else "(if %s then Ok true else %s)") % (t, acc)
            acc = self.inline_pre(inner, tail)
        if refined:
            return ("out", "bool", "(match %s with Some %s => %s | None => Ok false end)" % (refined[0], refined[1], acc))
        return ("out", "bool", ("(if %s then %s else Ok false)" if isand else "(if %s then Ok true else %s)") % (first, acc))

    @staticmethod
    def is_not_none(t, env):
        return (isinstance(t, ast.Compare) and len(t.ops) == 1 and isinstance(t.ops[0], ast.IsNot) and isinstance(t.left, ast.Name)
                and isinstance(t.comparators[0], ast.Constant) and t.comparators[0].value is None and env.get(t.left.id, ("",))[0] == "optnet")

    def setter_of(self, cls, attr, node):
        """(defining class, setter method name, state field) of `attr = property(lambda self: self._<field>, <setter>, ..)`"""
        for c in self.tr.modof(cls).ancestors(cls):
            cd = self.tr.modof(cls).classes.get(c)
            for st in (cd.body if cd else []):
                if (isinstance(st, ast.Assign) and len(st.targets) == 1 and isinstance(st.targets[0], ast.Name) and st.targets[0].id == attr):
                    v = st.value
                    if (isinstance(v, ast.Call) and dotted(v.func) == "property" and len(v.args) >= 2 and isinstance(v.args[0], ast.Lambda)
                            and isinstance(v.args[1], ast.Name) and len(v.args[0].args.args) == 1
                            and dotted(v.args[0].body) in ("%s._value" % v.args[0].args.args[0].arg, "%s._prefixlen" % v.args[0].args.args[0].arg)):
                        return c, v.args[1].id, v.args[0].body.attr
                    bad(node, "%s.%s is not `property(lambda self: self._<field>, <setter>, ..)`" % (c, attr))
        bad(node, "no property %s in %s" % (attr, cls))

    # ---- expressions
    def rhs(self, node, env):
        if isinstance(node, ast.Tuple) and isinstance(node.ctx, ast.Load):
            items = [self.ex(x, env) for x in node.elts]
            tys = [ty for ty, _ in items]
            if tys == ["int"] * 3:          # a range tuple without / with its original object: Merge.rtuple
                return ("rtup", "(%s, None)" % ", ".join(t for _, t in items))
            if tys == ["int", "int", "int", "mitem"]:
                return ("rtup", "(%s, Some %s)" % (", ".join(t for _, t in items[:3]), items[3][1]))
            bad(node, "tuple other than (int, int, int[, IPNetwork-or-IPRange object])")
        if isinstance(node, ast.BoolOp) and isinstance(node.op, ast.And) and self.is_not_none(node.values[0], env):
            return self.boolop_sc(node, env)
        if isinstance(node, ast.Compare) and len(node.ops) == 1 and type(node.ops[0]) in TUPLE_CMP:
            snap = self.snapshot()              # comparison of two tuples of ints (the results of key() / sort_key()): lexicographic
            try:
                (lty, l), (rty, r) = self.ex(node.left, env), self.ex(node.comparators[0], env)
            except Untranslatable:
                lty = rty = None
            if lty == "tuple" and rty == "tuple":
                return ("bool", "(%s %s %s)" % (TUPLE_CMP[type(node.ops[0])], l, r))
            self.restore(snap)
        if isinstance(node, ast.Compare) and len(node.ops) == 1 and isinstance(node.ops[0], (ast.In, ast.NotIn)):
            snap = self.snapshot()              # x in y / x not in y for an IPNetwork-valued y: its translated __contains__
            try:
                (lty, l), (rty, r) = self.ex(node.left, env), self.ex(node.comparators[0], env)
            except Untranslatable:
                lty = rty = None
            if rty == "net" and lty in ("obj", "net"):
                opnd = "(OAddr %s %s)" % (l[0], l[2]) if lty == "obj" else "(ONet (nver %s) (nval %s) (nplen %s))" % (l, l, l)
                res = self.generated(node, "IPNetwork", "__contains__", self.net_state(r), [("operand", opnd)])
                if isinstance(node.ops[0], ast.In):
                    return res
                h = self.fresh()
                self.hoist(node, ("bind", h, res[2]))
                return ("bool", "(negb %s)" % h)
            self.restore(snap)
        if isinstance(node, ast.BoolOp):
            snap = self.snapshot()
            try:
                return super().rhs(node, env)
            except Untranslatable as e:
                if "can raise under and/or" not in str(e):
                    raise
                self.restore(snap)
                return self.boolop_sc(node, env)
        if (isinstance(node, ast.BinOp) and isinstance(node.op, ast.Mod) and isinstance(node.left, ast.Constant)
                and isinstance(node.left.value, str) and re.fullmatch(r"[ -$&-~]*%x", node.left.value) and '"' not in node.left.value):
            e = self.int_(node.right, env)       # '<text>%x' % e for an int e: the text followed by e in lower-case hexadecimal
            return ("out", "str", "(py_fmt_hex \"%s\"%%string %s)" % (node.left.value[:-2], e))
        if (isinstance(node, ast.BinOp) and isinstance(node.op, ast.FloorDiv) and isinstance(node.right, ast.BinOp)
                and isinstance(node.right.op, ast.Pow) and (const_int(node.right.left) or 0) > 0):
            a, b = self.int_(node.left, env), self.int_(node.right, env)     # a // k ** e: the divisor is never 0 (e >= 0 is guarded by the ** arm)
            return ("int", ARITH[ast.FloorDiv] % (a, b))
        if isinstance(node, ast.Attribute):
            head, _, tail = (dotted(node) or "").partition(".")
            ty = env.get(head, (None,))[0] if head else None
            if ty == "mitem" and "." not in tail:          # a property both classes have: by the class of the object
                h, hv, hs, he = self.fresh(), self.fresh(), self.fresh(), self.fresh()
                a = self.generated(node, "IPNetwork", tail, self.net_state(h), [])
                b = self.generated(node, "IPRange", tail, "%s (width %s) %s %s" % (hv, hv, hs, he), [])
                if a[0] == "out" or b[0] == "out" or a[0] != b[0] or a[0] not in ("int", "bool"):
                    bad(node, "attribute %s of an IPNetwork-or-IPRange object" % tail)
                return (a[0], "(match %s with MNet %s => %s | MRange %s %s %s => %s end)" % (env[head][1], h, a[1], hv, hs, he, b[1]))
            if ty == "obj" and tail:
                o = env[head][1]
                if tail == "_value":
                    return ("int", o[2])
                r = self.tr.modof("IPAddress").lookup("IPAddress", tail) if "." not in tail else None
                if r and r[2]:
                    return self.generated(node, "IPAddress", tail, " ".join(o[:3]), [])
                bad(node, "attribute %s of an IPAddress" % tail)
        return super().rhs(node, env)

    def subscript(self, node, env):
        if isinstance(node.slice, ast.Slice):
            return super().subscript(node, env)
        snap = self.snapshot()
        ty, t = self.ex(node.value, env)
        k = const_int(node.slice)
        if ty == "rtup":
            if k in (0, 1, 2):
                return ("int", ("(fst (fst (fst %s)))", "(snd (fst (fst %s)))", "(snd (fst %s))")[k] % t)
            x = node.value.id if isinstance(node.value, ast.Name) else None
            if k == 3 and x in env.get("@rt4", {}):
                return ("mitem", env["@rt4"][x])
            bad(node, "component of a range tuple other than [0], [1], [2], or [3] under `if len(t) == 4`")
        if is_list(ty) and ty[1].find().t is not None:
            i = self.int_(node.slice, env)
            h = self.fresh()
            self.hoist(node, ("bind", h, "(py_index %s %s)" % (t, i)))
            e = ty[1].find().t
            return ("obj", self.objvar(h)) if e == "obj" else (e, h)
        self.restore(snap)
        return super().subscript(node, env)

    def callfn(self, node, name, env):
        if node.keywords:
            bad(node, "keyword arguments in a call of %s" % name)
        d = self.tr.get(None, name, node)
        args = [self.ex(x, env) for x in node.args]
        if len(args) == len(d.params):       # an IPAddress object where an IPNetwork is declared: IPNetwork(<IPAddress>) = its host network
            args = [("net", "(py_net_of_addr %s)" % t[3]) if (ty == "obj" and pty == "net") else (ty, t)
                    for (ty, t), (_, pty) in zip(args, d.params)]
        return self.generated(node, None, name, "", args)

    def listcomp(self, node, env):
        g = node.generators
        if (len(g) == 1 and not g[0].ifs and not g[0].is_async and isinstance(g[0].target, ast.Name) and isinstance(node.elt, ast.Call)
                and dotted(node.elt.func) == "IPNetwork" and "IPNetwork" not in env and "IPNetwork" in self.mod.classes
                and len(node.elt.args) == 1 and not node.elt.keywords and isinstance(node.elt.args[0], ast.Name)
                and node.elt.args[0].id == g[0].target.id):
            ty, t = self.ex(g[0].iter, env)     # [IPNetwork(x) for x in xs] for IPNetwork-valued xs: copies (the identity on the model)
            if is_list(ty) and ty[1].find().t == "net":
                return (("list", Cell("net")), t)
            bad(node, "[IPNetwork(x) for x in xs] over %s" % show(ty))
        return super().listcomp(node, env)

    def call(self, node, env):
        f = node.func
        if (isinstance(f, ast.Attribute) and f.attr in MODULE_FUNCS and dotted(f.value) == "self._module" and not node.keywords
                and "self._module.version" in self.attrs and "self" not in env):
            sym, ptys, rty = MODULE_FUNCS[f.attr]        # self._module.<f>(..): the strategy module's function, a prelude symbol by version
            args = [self.ex(x, env) for x in node.args]
            if len(args) != len(ptys) or any(ty != pty for (ty, _), pty in zip(args, ptys)):
                bad(node, "argument list of self._module.%s" % f.attr)
            return ("out", parse_type(rty), "(%s)" % " ".join([sym, self.attrs["self._module.version"][1]] + [t for _, t in args]))
        if (isinstance(f, ast.Attribute) and f.attr == "to_bytes" and len(node.args) == 2 and not node.keywords
                and isinstance(node.args[1], ast.Constant) and node.args[1].value == "big"):
            v, n = self.int_(f.value, env), self.int_(node.args[0], env)     # int.to_bytes(n, 'big'): OverflowError when it does not fit
            return ("out", ("list", Cell("int")), "(py_int_to_bytes %s %s)" % (v, n))
        if (isinstance(f, ast.Name) and f.id == "num_bits" and f.id not in env and self.mod.imports.get("num_bits") == "netaddr.core.num_bits"
                and len(node.args) == 1 and not node.keywords and core_num_bits_ok()):
            return ("int", "(py_num_bits %s)" % self.int_(node.args[0], env))      # int.bit_length: SrcPreludeCmp.py_num_bits
        if self.builtin_call(node, "hash", env, 1):
            ty, t = self.ex(node.args[0], env)   # hash(<tuple of ints>): CPython's hash is not modelled; it is the parameter `hash_`
            if ty != "tuple":
                bad(node, "hash() of %s" % show(ty))
            if ("hash_", "hashfn") not in self.statevars:
                self.coqname(node, "hash")
                self.statevars.append(("hash_", "hashfn"))
            return ("int", "(hash_ %s)" % t)
        if self.builtin_call(node, "sorted", env, 1):
            ty, t = self.ex(node.args[0], env)  # sorted(l) for a list of IPNetwork objects: SrcPreludeMatch.py_sorted_nets
            if not (is_list(ty) and ty[1].find().t == "net"):
                bad(node, "sorted() of %s" % show(ty))
            return (("list", Cell("net")), "(py_sorted_nets %s)" % t)
        if (isinstance(f, ast.Name) and f.id == "IPAddress" and f.id not in env and len(node.args) == 1 and not node.keywords
                and isinstance(node.args[0], ast.Name) and env.get(node.args[0].id, ("",))[0] == "obj"):
            return env[node.args[0].id]          # IPAddress(x) of an IPAddress-valued x: a copy, (version, value) unchanged
        if (isinstance(f, ast.Attribute) and f.attr == "int_to_str" and dotted(f.value) == "self._module" and self.recv
                and len(node.args) == 1 and not node.keywords):
            return ("ipstr", self.int_(node.args[0], env))       # the text of an address, kept as the integer it is the text of
        if (isinstance(f, ast.Attribute) and dotted(f) == "self.__class__" and self.recv == "IPNetwork" and len(node.args) == 2
                and not node.keywords and isinstance(node.args[0], ast.BinOp) and isinstance(node.args[0].op, ast.Mod)
                and isinstance(node.args[0].left, ast.Constant) and node.args[0].left.value == "%s/%d"
                and isinstance(node.args[0].right, ast.Tuple) and len(node.args[0].right.elts) == 2):
            a, p = node.args[0].right.elts       # Class('%s/%d' % (address, prefixlen), version): SrcPreludeSRCE.py_net_of_cidr_text
            ver = self.int_(node.args[1], env)
            aty, at = self.ex(a, env)
            if aty == "obj":                     # str(IPAddress): the text is of the object's own family
                self.hoist(node, ("guard", "(negb (%s =? %s))" % (at[0], ver), "Unsupported"))
                val = at[2]
            elif aty == "ipstr":
                val = at
            else:
                bad(node, "'%%s/%%d' %% (x, ..) with x neither an IPAddress nor module.int_to_str(..)")
            return ("out", "net", "(py_net_of_cidr_text %s %s %s)" % (ver, val, self.int_(p, env)))
        if (isinstance(f, ast.Attribute) and isinstance(f.value, ast.Name) and f.value.id in env and f.value.id != "self"
                and not node.keywords and (env[f.value.id][0] == "net" or (isinstance(env[f.value.id][0], tuple) and env[f.value.id][0][0] == "opnd"))):
            ty, t = env[f.value.id]              # x.m(..) for an IPNetwork-valued variable or a refined operand: a translated method
            if ty == "net":
                cls, state = "IPNetwork", self.net_state(t)
            else:
                if ty[1] not in KINDCLASS:
                    bad(node, "method of an operand that is no BaseIP object")
                cls, fl = KINDCLASS[ty[1]], ty[2]
                state = " ".join([fl["ver"], "(width %s)" % fl["ver"]] + [fl[x] for x in dict(OPERAND)[ty[1]][1:]])
            r = self.tr.modof(cls).lookup(cls, f.attr)
            if r and not r[2]:
                return self.generated(node, cls, f.attr, state, [("int", self.int_(x, env)) for x in node.args])
        return super().call(node, env)

    # ---- statements
    def block(self, stmts, env, k, after):
        for key, val in list(env.items()):       # a parameter declared `obj`: (version, width, value, the pair itself)
            if not key.startswith("@") and val[0] in ("obj", "objv") and isinstance(val[1], str):
                env[key] = ("obj", self.objvar(val[1]))
        if stmts and isinstance(stmts[0], ast.Try) and self.is_notimplemented_try(stmts[0]):
            return self.try_notimplemented(stmts[0], env)
        if stmts and isinstance(stmts[0], ast.Delete):
            s, rest = stmts[0], list(stmts[1:])
            tgt = s.targets[0] if len(s.targets) == 1 else None
            if not (isinstance(tgt, ast.Subscript) and isinstance(tgt.value, ast.Name) and is_list(env.get(tgt.value.id, ("",))[0])
                    and not isinstance(tgt.slice, ast.Slice)):
                bad(s, "del other than `del l[i]` on a list")
            l = tgt.value.id
            lty, lt = env[l]
            i = self.int_(tgt.slice, env)
            pre = self.take_pre()
            cn, env2 = self.bind_local(s, l, lty, env)
            return self.wrap(pre, ("bind", cn, "(py_delitem %s %s)" % (lt, i), self.block(rest, env2, k, after)))
        return super().block(stmts, env, k, after)

    def loop(self, s, rest, env, k, after):
        env = dict(env)                          # an IPAddress object read inside a loop is carried as the pair (version, value)
        for x in loaded_names(([s.test] if isinstance(s, ast.While) else []) + s.body):
            if x in env and env[x][0] == "obj" and not isinstance(env[x][1], str):
                env[x] = ("objv", env[x][1][3])
        return super().loop(s, rest, env, k, after)

    @staticmethod
    def is_notimplemented_try(s):
        h = s.handlers[0] if len(s.handlers) == 1 else None
        return (h is not None and not s.orelse and not s.finalbody and len(s.body) == 1 and isinstance(s.body[0], ast.Return)
                and s.body[0].value is not None and len(h.body) == 1 and isinstance(h.body[0], ast.Return)
                and isinstance(h.body[0].value, ast.Name) and h.body[0].value.id == "NotImplemented")

    def try_notimplemented(self, s, env):
        """try: return <e> / except (AttributeError, TypeError): return NotImplemented, where <e> reads a parameter declared `operand`:
        for the three BaseIP kinds <e> must be translated without anything that can raise (then the handler is dead and the
        statement is `return <e>`); for anything else the attribute read raises, the method answers NotImplemented and Python goes
        on to the reflected operation: out of scope, `Raise Unsupported`."""
        h = s.handlers[0]
        hs = h.type.elts if isinstance(h.type, ast.Tuple) else [h.type]
        if (not all(isinstance(c, ast.Name) and c.id in EXN and c.id not in env and not self.mod.toplevel(c.id) for c in hs)
                or "AttributeError" not in [c.id for c in hs] or "NotImplemented" in env or self.mod.toplevel("NotImplemented")
                or env["@mut"] or env["@break"] is not None):
            bad(s, "try statement other than `try: return <e> / except (AttributeError, ..): return NotImplemented`")
        ops = [x for x in loaded_names(s.body) if env.get(x, ("",))[0] == "operand"]
        if len(ops) != 1:
            bad(s, "`try: return <e> / except ..: return NotImplemented` that does not read exactly one operand parameter")
        x, arms = ops[0], []
        for kind, fields in OPERAND:
            if kind == "OOther":
                arms.append((kind, [], ("raise", "Unsupported")))
                continue
            aenv = dict(env)
            names = [self.coqname(s, "%s_%s" % (x, f)) for f in fields]
            aenv[x] = (("opnd", kind, dict(zip(fields, names))), None)
            r = self.rhs(s.body[0].value, aenv)
            if r[0] == "out" or self.pre or not (r[0] in ("int", "bool") or is_value(r[0])):
                bad(s, "the body of `try: return <e> / except ..: return NotImplemented` can raise (or is no value) for a %s operand" % kind)
            arms.append((kind, names, self.leaf(aenv, r[0], r[1])))
        return ("omatch", env[x][1], arms)

    def return_(self, s, env):
        if getattr(s, "gen_state", None) is not None:        # the end of a generator's prologue: the state its loop starts in
            st = self.state_tuple(s, s.gen_state, env)
            self.gen_state = [(x, ty) for x, ty, _ in st]
            return self.leaf(env, tuple_type([ty for _, ty, _ in st]), tuple_term([t for _, _, t in st]))
        if getattr(s, "gen_yield", None) is not None:        # `yield e`: (e, the state the next resumption starts in)
            ety, et = self.ex(s.value, env)
            if ety == "obj":
                et = et[3]
            elif ety not in ("net", "int"):
                bad(s, "yield of a %s value" % show(ety))
            st = self.state_tuple(s, s.gen_yield, env)
            ir = self.leaf(env, ("tup", (ety, tuple_type([ty for _, ty, _ in st]))), "(%s, %s)" % (et, tuple_term([t for _, _, t in st])))
            return self.wrap(self.take_pre(), ir)
        return super().return_(s, env)

    @property
    def params_declared(self):
        return [(x, ty) for x, ty in zip([a.arg for a in self.f.args.args if a.arg != "self"], [ty for _, ty in self.params])]

    def assign(self, s, env, go):
        tgt = s.targets[0] if isinstance(s, ast.Assign) and len(s.targets) == 1 else s.target if isinstance(s, ast.AugAssign) else None
        if (isinstance(s, ast.Assign) and isinstance(tgt, ast.Name)
                and SRCE_LOCALS.get((self.recv, self.name, tgt.id)) == "optnet"):
            if isinstance(s.value, ast.Constant) and s.value.value is None:     # a local declared `None or an IPNetwork object`
                cn, env = self.bind_local(tgt, tgt.id, "optnet", env, s.value)
                return ("let", cn, "None", go(env))
            ty, t = self.ex(s.value, env)
            if ty != "net":
                bad(s, "assignment of %s to %s, declared None-or-IPNetwork" % (show(ty), tgt.id))
            pre = self.take_pre()
            cn, env = self.bind_local(tgt, tgt.id, "optnet", env, s.value)
            return self.wrap(pre, ("let", cn, "(Some %s)" % t, go(env)))
        if (isinstance(s, ast.Assign) and isinstance(tgt, ast.Subscript) and isinstance(tgt.value, ast.Name)
                and is_list(env.get(tgt.value.id, ("",))[0]) and not isinstance(tgt.slice, ast.Slice)):
            l = tgt.value.id                     # l[i] = e (the value first, then the index, as Python evaluates them)
            lty, lt = env[l]
            ty, t = self.ex(s.value, env)
            unify(s, ("list", Cell(ty)), lty, "assigned item")
            i = self.int_(tgt.slice, env)
            pre = self.take_pre()
            cn, env = self.bind_local(s, l, lty, env)
            return self.wrap(pre, ("bind", cn, "(py_setitem %s %s %s)" % (lt, i, t), go(env)))
        if (isinstance(s, ast.Assign) and isinstance(tgt, ast.Name) and isinstance(s.value, ast.Call) and isinstance(s.value.func, ast.Name)
                and s.value.func.id == "IPAddress" and "IPAddress" not in env and len(s.value.args) == 1 and not s.value.keywords
                and isinstance(s.value.args[0], ast.Name) and env.get(s.value.args[0].id, ("",))[0] == "obj"):
            if tgt.id in ("self", "_ipv4", "_ipv6"):
                bad(s, "rebinding of %s" % tgt.id)
            self.coqname(tgt, tgt.id)            # x = IPAddress(y) for an IPAddress-valued y: a copy with the same (version, value)
            env = dict(env)
            env[tgt.id] = env[s.value.args[0].id]
            env["@taint"] = env["@taint"] | {tgt.id} if s.value.args[0].id in env["@taint"] else env["@taint"] - {tgt.id}
            return go(env)
        if (isinstance(s, ast.AugAssign) and isinstance(tgt, ast.Name) and env.get(tgt.id, ("",))[0] == "net"
                and isinstance(s.op, (ast.Add, ast.Sub))):
            x, old = tgt.id, env[tgt.id][1]     # x += n / x -= n on an owned IPNetwork object: its translated __iadd__ / __isub__
            self.freshbind.add(id(s))
            if not self.owned(x):
                bad(s, "in-place operator on %s, which may be visible under another name" % x)
            num = self.int_(s.value, env)
            r = self.generated(s, "IPNetwork", "__iadd__" if isinstance(s.op, ast.Add) else "__isub__", self.net_state(old), [("int", num)])
            if r[0] != "out" or r[1] != "int":
                bad(s, "unexpected translation of the in-place operator")
            pre, h = self.take_pre(), self.fresh()
            cn, env = self.bind_local(s, x, "net", env, s.value)
            return self.wrap(pre, ("bind", h, r[2], ("let", cn, "{| nver := nver %s; nval := %s; nplen := nplen %s |}" % (old, h, old), go(env))))
        if (isinstance(tgt, ast.Attribute) and isinstance(tgt.value, ast.Name) and env.get(tgt.value.id, ("",))[0] == "net"
                and tgt.attr in ("value", "prefixlen")):
            x, old = tgt.value.id, env[tgt.value.id][1]   # x.value = e / x.prefixlen = e: the property's setter, on an owned object
            if not self.owned(x):
                bad(s, "attribute assignment on %s, which may be visible under another name" % x)
            cls, setter, field = self.setter_of("IPNetwork", tgt.attr, s)
            cur = "(nval %s)" % old if field == "_value" else "(nplen %s)" % old
            if isinstance(s, ast.AugAssign):
                if type(s.op) not in (ast.Add, ast.Sub):
                    bad(s, "augmented assignment operator")
                e = ARITH[type(s.op)] % (cur, self.int_(s.value, env))
            else:
                e = self.int_(s.value, env)
            state = self.net_state(old) if cls == "IPNetwork" else "(nver %s) (width (nver %s)) (nval %s)" % (old, old, old)
            r = self.generated(s, cls, setter, state, [("sarg", "(SInt %s)" % e)])
            if r[0] != "out" or r[1] != "int":
                bad(s, "unexpected translation of the setter %s" % setter)
            pre, h = self.take_pre(), self.fresh()
            cn, env = self.bind_local(s, x, "net", env, s.value)
            term = "{| nver := nver %s; nval := %s; nplen := %s |}" % (old, h if field == "_value" else "nval " + old, h if field == "_prefixlen" else "nplen " + old)
            return self.wrap(pre, ("bind", h, r[2], ("let", cn, term, go(env))))
        if (isinstance(s, ast.Assign) and isinstance(tgt, ast.Name) and isinstance(s.value, ast.Call)
                and dotted(s.value.func) == "self.__class__" and len(s.value.args) == 2 and isinstance(s.value.args[0], ast.BinOp)):
            self.freshbind.add(id(s))            # Class('%s/%d' % ..): a new object nobody else can see
        return super().assign(s, env, go)

    def expr_stmt(self, s, env, go):
        v = s.value
        if (isinstance(v, ast.Call) and isinstance(v.func, ast.Attribute) and isinstance(v.func.value, ast.Name)
                and is_list(env.get(v.func.value.id, ("",))[0]) and not v.keywords):
            l = v.func.value.id
            lty, lt = env[l]
            if v.func.attr == "extend" and len(v.args) == 1:     # l.extend(e) for a list e: l ++ e
                ty, t = self.ex(v.args[0], env)
                if not is_list(ty):
                    bad(s, "extend() with %s" % show(ty))
                unify(s, ty, lty, "extended list")
                pre = self.take_pre()
                cn, env = self.bind_local(s, l, lty, env)
                if self.tainted(v.args[0], env):
                    env["@taint"] = env["@taint"] | {l}
                return self.wrap(pre, ("let", cn, "(%s ++ %s)" % (lt, t), go(env)))
            if v.func.attr == "sort" and not v.args and lty[1].find().t == "rtup":
                cn, env = self.bind_local(s, l, lty, env)            # l.sort() on a list of range tuples: SrcPreludeMerge.py_sort_ranges
                return ("let", cn, "(py_sort_ranges %s)" % lt, go(env))
        return super().expr_stmt(s, env, go)

    def if_(self, s, rest, env, k, after):
        t = s.test
        if (isinstance(t, ast.Compare) and len(t.ops) == 1 and isinstance(t.ops[0], ast.Eq) and self.builtin_call(t.left, "len", env, 1)
                and isinstance(t.left.args[0], ast.Name) and env.get(t.left.args[0].id, ("",))[0] == "rtup" and const_int(t.comparators[0]) == 4):
            x, h = t.left.args[0].id, self.fresh()      # len(t) == 4 for a range tuple: does it still carry its original object?
            yenv = dict(env)
            yenv["@rt4"] = dict(env.get("@rt4", {}), **{x: h})
            return ("omatch", "(snd %s)" % env[x][1], [("Some", [h], self.block(s.body + rest, yenv, k, after)),
                                                       ("None", [], self.block(s.orelse + rest, env, k, after))])
        if (isinstance(t, ast.Compare) and len(t.ops) == 1 and isinstance(t.ops[0], ast.Is) and isinstance(t.left, ast.Name)
                and isinstance(t.comparators[0], ast.Constant) and t.comparators[0].value is None
                and env.get(t.left.id, ("",))[0] == "optint"):
            x, a = t.left.id, s.body[0] if len(s.body) == 1 else None   # `if x is None: x = <int default>`: from here on x is an int
            if not (s.orelse == [] and isinstance(a, ast.Assign) and len(a.targets) == 1 and isinstance(a.targets[0], ast.Name)
                    and a.targets[0].id == x):
                bad(s, "`if %s is None:` followed by something other than `%s = <default>`" % (x, x))
            old = env[x][1]
            self.nohoist += 1
            d = self.int_(a.value, env)
            self.nohoist -= 1
            cn, env2 = self.bind_local(a.targets[0], x, "int", env, a.value)
            env2["@taint"] = env2["@taint"] | {x}
            return ("let", cn, "(match %s with Some h0 => h0 | None => %s end)" % (old, d), self.block(rest, env2, k, after))
        return super().if_(s, rest, env, k, after)

    def isinstance_(self, s, t, neg, rest, env, k, after):
        x = t.args[0].id if len(t.args) == 2 and isinstance(t.args[0], ast.Name) else None
        if x is not None and env.get(x, ("",))[0] == "mitem" and not t.keywords:
            cs = t.args[1].elts if isinstance(t.args[1], ast.Tuple) else [t.args[1]]
            if not all(isinstance(c, ast.Name) for c in cs):
                bad(s, "isinstance against something other than class names")
            isnet, isrng = [any(self.isinst(s, kind, c.id) for c in cs) for kind in ("ONet", "ORng")]
            yes, no = (s.orelse, s.body) if neg else (s.body, s.orelse)
            if isnet == isrng:                   # the declared type (an IPNetwork or an IPRange object) decides the test
                return self.block((yes if isnet else no) + rest, env, k, after)
            h, hv, hs, he = self.fresh(), self.fresh(), self.fresh(), self.fresh()
            nenv, renv = dict(env), dict(env)
            nenv[x], renv[x] = ("net", h), (("opnd", "ORng", {"ver": hv, "s": hs, "e": he}), None)
            return ("omatch", env[x][1], [("MNet", [h], self.block((yes if isnet else no) + rest, nenv, k, after)),
                                          ("MRange", [hv, hs, he], self.block((yes if isrng else no) + rest, renv, k, after))])
        return super().isinstance_(s, t, neg, rest, env, k, after)


FN_CLASS.update({u[1]: FnE for u in SRCE_UNITS})
# ---- SRCF: constructs of the EUI units (see the docstring paragraph "SRCF") -------------------------------------------
_is_value_before_SRCF = is_value


def is_value(t):
    return _is_value_before_SRCF(t) or t in SRCF_VALUE_TYPES


class FnF(Fn):
    """Fn with the constructs of the units listed in SRCF_UNITS; everything it does not recognise goes to Fn unchanged."""
    OPT = {"optstr": "str", "optedialect": "edialect"}

    def __init__(self, tr, recv, name, ptypes):
        self.spec_types = dict(ptypes)
        Fn.__init__(self, tr, recv, name, ptypes)

    def coqname(self, node, name):
        if name in SRCF_RESERVED:
            if self.used.setdefault(name + "_", name) != name:
                bad(node, "identifier clash on %s_" % name)
            return name + "_"
        return Fn.coqname(self, node, name)

    def unit_init(self, env):
        self.dialect_param = False
        self.init_fullstate(env)
        self.local_types = {x: t for x, t in getattr(self, "spec_types", {}).items() if t in self.OPTLIST}
        if "self.fh" in self.ptypes_declared:
            self.init_file_state(env)
        if any(x.startswith("dict:") for x in self.ptypes_declared):
            self.init_dicts(env)
        self.no_state_text = (self.recv, self.pyname) in SRCF_CLASSMETHODS
        for i, (cn, ty) in enumerate(self.params):              # a parameter declared "tup:<t1>,<t2>,..": a tuple of those types
            if isinstance(ty, str) and ty.startswith("tup:"):
                ty = ("tup", tuple(ty[4:].split(",")))
                self.params[i] = (cn, ty)
                for key, val in env.items():
                    if not key.startswith("@") and val[1] == cn:
                        env[key] = (ty, cn)
        if self.recv is None and self.tr.prefix in ("eui48_", "eui64_"):
            # the module's own constants width / version / max_int: the regenerated constants of Gen/pysrc_eui_gen.v
            for c in ("width", "version", "max_int"):
                if c not in env:
                    self.attrs[c] = ("int", "src_%s%s" % (self.tr.prefix, c))
        if self.recv is not None:
            # the constants of the two strategy modules, through the aliases the file imports them under (Gen/pysrc_eui_gen.v)
            for m in ("eui48", "eui64"):
                if self.mod.imports.get("_" + m) == "netaddr.strategy." + m:
                    for c in ("width", "version", "max_int"):
                        self.attrs["_%s.%s" % (m, c)] = ("int", "src_%s_%s" % (m, c))
        last = self.f.body[-1] if self.f.body else None
        if (self.recv == "EUI" and isinstance(last, ast.Assign) and len(last.targets) == 1 and dotted(last.targets[0]) == "self._dialect"
                and sum(1 for n in ast.walk(self.f) if isinstance(n, ast.Attribute) and not isinstance(n.ctx, ast.Load)) == 1
                and not any(isinstance(n, ast.Return) for n in ast.walk(self.f))):
            # a method whose only state assignment is its last statement `self._dialect = e` answers the new dialect
            import copy
            self.f = copy.copy(self.f)
            self.f.body = self.f.body[:-1] + [ast.copy_location(ast.Return(value=last.value), last)]
        if self.recv == "EUI" and "self._dialect" in self.ptypes_declared:
            cn = self.coqname(self.f, "self_dialect")
            self.params.insert(0, (cn, "edialect"))
            self.attrs["self._dialect"] = ("edialect", cn)
            self.dialect_param = True

    # ---- calls of translated definitions: keyword / default arguments, a dialect record for a callee that takes the pair
    def coerce(self, node, ty, t, pty):
        if ty == "none" and isinstance(pty, str) and pty.startswith("opt"):
            return (pty, "None")
        if pty == "darg" and ty in ("none", "edialect"):
            return (pty, "DNone" if ty == "none" else "(DRec %s)" % t)
        if ty == "edialect" and pty == "optdialect":
            return (pty, "(Some (d_pair %s))" % t)
        if isinstance(pty, str) and self.OPT.get(pty) == ty:
            return (pty, "(Some %s)" % t)
        return (ty, t)

    def bind_args(self, node, d, env, ptys=None, names=None, defaults=None):
        """the arguments of a call by the callee's Python signature: positional, keyword, literal default"""
        if d is not None:
            a = d.f.args
            names = [x.arg for x in a.args][(0 if d.recv is None else 1):]
            defaults = dict(zip(names[len(names) - len(a.defaults):], a.defaults)) if a.defaults else {}
            ptys = [pty for _, pty in d.params[len(d.params) - len(names):]] if names else []
        if len(node.args) > len(names) or any(isinstance(x, ast.Starred) for x in node.args):
            bad(node, "unsupported argument list")
        given = dict(zip(names, node.args))
        for k in node.keywords:
            if k.arg is None or k.arg in given or k.arg not in names:
                bad(node, "unsupported keyword argument")
            given[k.arg] = k.value
        out = []
        for x, pty in zip(names, ptys):
            if x not in given and x not in defaults:
                bad(node, "missing argument %s" % x)
            ty, t = self.ex(given[x] if x in given else defaults[x], env)
            out.append(self.coerce(node, ty, t, pty))
        return out

    def generated_d(self, node, d, state, args, optional_ok=False):
        """Fn.generated for an already found definition d (possibly of a unit this file does not import by name)"""
        if FILES.index(d.file) > FILES.index(self.file):
            bad(node, "%s lives in %s, which comes after %s" % (d.cname, d.file, self.file))
        self.depfns.append(d)
        self.assumes_inv |= d.assumes_inv
        if len(args) != len(d.params):
            bad(node, "unsupported argument list for %s" % d.cname)
        for (ty, _), (_, pty) in zip(args, d.params):
            unify(node, ty, pty, "argument of %s" % d.cname)
        term = "(%s)" % " ".join([d.cname] + ([state] if state else []) + [t for _, t in args])
        if (d.optional and not optional_ok) or d.mutating:
            bad(node, "use of %s, which may return None or assigns the object state" % d.cname)
        return ("out", d.kind, term) if d.outcome else (d.kind, term)

    def generated(self, node, recv, name, state, args):
        d = self.tr.get(recv, name, node)
        if getattr(d, "no_state_text", False):
            return self.generated_d(node, d, "", args)
        if getattr(d, "dialect_param", False):           # the callee reads the receiver's _dialect: it is its first parameter
            m = re.fullmatch(r"\(ever (.+)\) \(evalue \1\)", state or "")
            if m:
                args = [("edialect", "(edialect %s)" % m.group(1))] + list(args)
            elif "self._dialect" in self.attrs and state == self.state({}):
                args = [self.attrs["self._dialect"]] + list(args)
            else:
                bad(node, "call of %s, which reads the dialect, on a receiver whose dialect is not known" % d.cname)
        return Fn.generated(self, node, recv, name, state, args)

    def variant_for(self, specs_of, name, node, env):
        """`name`, or its specialisation `name:<type of the first argument>` when the unit lists one"""
        if node.args and not isinstance(node.args[0], ast.Starred):
            snap, pre0 = self.snapshot(), list(self.pre)
            ty = self.rhs(node.args[0], env)
            ty = ty[1] if ty[0] == "out" else ty[0]
            self.restore(snap)
            self.pre = pre0
            if isinstance(ty, str) and any(k[0] is None and k[1] == "%s:%s" % (name, ty) for t in specs_of for k in t.specs):
                return "%s:%s" % (name, ty)
        return name

    def callfn(self, node, name, env):
        name = self.variant_for([self.tr], name, node, env) if self.tr.owner_of(name) and self.tr.owner_of(name)[0] is self.tr else name
        d = self.tr.get(None, name, node)
        args = self.bind_args(node, d, env)
        if d.optional and is_list(d.kind) and d.kind[1].find().t == "str" and not d.mutating:
            r = self.generated_d(node, d, "", args, optional_ok=True)      # the groups of a match, or None
            return ("out", "optgroups", r[2]) if r[0] == "out" else ("optgroups", r[1])
        return self.generated(node, None, name, "", args)

    def bool_(self, node, env):
        snap, pre0 = self.snapshot(), list(self.pre)
        self.opt_ok = None
        ty, t = self.ex(node, env)
        if ty == "matches":
            return "(py_found %s)" % t                      # truth of a findall() result
        if ty == "optgroups":
            return "(py_optgroups_truthy %s)" % t           # truth of None / the groups of a match
        if ty == "str" and self.tr.out in ("pysrc_ieee_gen.v", "pysrc_euic_gen.v"):
            return "(py_bytes_truthy %s)" % t               # truth of a bytes object
        self.restore(snap)
        self.pre = pre0
        return Fn.bool_(self, node, env)

    def finish(self):
        """Fn.finish, also for a function that returns from inside a loop and None at its end"""
        rets = [l for l in self.leaves(self.ir) if l[0] == "ret" and l[1] != "@loop"]
        if not rets and not self.lrets and any(l[0] == "raise" for l in self.leaves(self.ir)):
            # every path raises: the result type is the one the unit entry's other specialisation has (an int for str_to_int)
            self.kind = self.retkind = "int"
            self.optional, self.outcome, self.type, self.fresh = False, True, "outcome Z", False
            return
        if self.lrets and any(l[1] == "none" for l in rets) and not self.mutating:
            kinds = [l[1] for l in rets if l[1] != "none"] + self.lrets
            for kd in kinds[1:]:
                unify(self.f, kd, kinds[0], "return values")
            self.kind = self.retkind = kinds[0]
            self.optional, self.outcome = True, self.effects(self.ir)
            base = "(option %s)" % coqty(self.kind, self.f)
            self.type = "outcome " + base if self.outcome else unparen(base)
            self.fresh = False
            return
        Fn.finish(self)

    def render(self, ir, ind, oc, optional=False):
        if ir[0] == "lmatch" and optional:                  # the loop returned r: the function's (optional) result is Some r
            i2 = ind + "  "
            sub = self.render(ir[4], i2, oc, optional) if ir[4][0] in ("ret", "raise", "jret", "lret") else "(" + self.render(ir[4], i2 + " ", oc, optional) + ")"
            return "match %s with\n%s| inl %s => %s\n%s| inr %s =>\n%s%s\n%send" % (
                ir[1], ind, ir[2], ("Ok (Some %s)" if oc else "(Some %s)") % ir[2], ind, ir[3], i2, sub, ind)
        if ir[0] == "trybind":
            i2 = ind + "  "
            sub = lambda x: self.render(x, i2, True, optional) if x[0] in ("ret", "raise", "jret", "lret") else "(" + self.render(x, i2 + " ", True, optional) + ")"
            hx = "x_" + ir[1]
            return "match %s with\n%s| Ok %s =>\n%s%s\n%s| Raise %s =>\n%sif exn_eqb %s %s then\n%s  %s\n%selse\n%s  Raise %s\n%send" % (
                ir[2], ind, ir[1], i2, sub(ir[3]), ind, hx, i2, hx, ir[4], i2, sub(ir[5]), i2, i2, hx, ind)
        if ir[0] == "let" and ir[2] == "[]" and re.fullmatch(r"\w+", ir[1]):
            body = self.render(ir[3], ind, oc, optional)
            m = re.search(r"\b%s\b" % re.escape(ir[1]), body)
            if m and re.search(r"(^|\s)(do|let) $", body[:m.start()]):
                return body                 # an empty list that is rebound before it is ever read: dropped (its element type is unknown)
        return Fn.render(self, ir, ind, oc, optional)

    def block(self, stmts, env, k, after):
        s = stmts[0] if stmts else None
        if s is not None and getattr(self, "local_types", None):
            r = self.block_opt(stmts, env, k, after)
            if r is not None:
                return r
        if getattr(self, "fullstate", False) and isinstance(s, ast.Expr) and isinstance(s.value, ast.Call):
            c = s.value
            if (isinstance(c.func, ast.Attribute) and c.func.attr == "__init__" and isinstance(c.func.value, ast.Call)
                    and dotted(c.func.value.func) == "super" and "super" not in env and not c.args and not c.keywords
                    and [dotted(x) for x in c.func.value.args] == [self.owner, "self"] and self.pyname == "__init__"):
                # super(C, self).__init__(): the body of the base class's __init__ (plain assignments of constants to attributes)
                bases = [dotted(b) for b in self.mod.classes[self.owner].bases]
                r = self.mod.lookup(bases[0], "__init__") if len(bases) == 1 else None
                body = [st for st in (r[1].body if r else []) if not (isinstance(st, ast.Expr) and isinstance(st.value, ast.Constant))]
                if not r or len(r[1].args.args) != 1 or any(not (isinstance(st, ast.Assign) and len(st.targets) == 1 and dotted(st.targets[0]) in self.STATE_KEYS
                                                                  and isinstance(st.value, ast.Constant)) for st in body):
                    bad(s, "super().__init__() of a base class whose __init__ is not a list of constant attribute assignments")
                return self.block(body + list(stmts[1:]), env, k, after)
        if getattr(self, "fullstate", False) and isinstance(s, ast.Try) and len(s.handlers) == 1:
            hb = s.handlers[0].body
            if len(hb) == 1 and isinstance(hb[0], ast.Pass):
                return self.try_pass_state(s, list(stmts[1:]), env, k, after)
            if (len(hb) == 1 and isinstance(hb[0], ast.Raise) and len(s.body) == 1 and isinstance(s.body[0], ast.Assign)
                    and dotted(s.body[0].targets[0]) == "self._value" and isinstance(s.body[0].value, ast.Call)
                    and not s.orelse and not s.finalbody and isinstance(s.handlers[0].type, ast.Name) and s.handlers[0].type.id in EXN):
                # try: self._value = <call> / except E1: raise E2(..)
                e2 = self.block(hb, {**env, "@break": None}, None, [])[1]
                r = self.rhs(s.body[0].value, env)
                if r[0] != "out" or r[1] != "int" or self.pre:
                    bad(s, "try: self._value = <call> with a call that cannot raise or has arguments that can")
                h, env2 = self.fresh(), dict(env)
                env2["self._value"] = ("int", h)
                return ("bind", h, "(py_except %s %s %s)" % (s.handlers[0].type.id, e2, r[2]), self.block(list(stmts[1:]), env2, k, after))
        if (isinstance(s, ast.Try) and len(s.handlers) == 1 and dotted(s.handlers[0].type) == "TypeError" and "TypeError" not in env
                and not self.mod.toplevel("TypeError") and not s.orelse and not s.finalbody and len(s.handlers[0].body) == 1
                and isinstance(s.handlers[0].body[0], ast.Pass)
                and all((isinstance(c.func, ast.Attribute) and c.func.attr == "findall" and isinstance(c.func.value, ast.Name)
                         and env.get(c.func.value.id, ("",))[0] == "pat" and len(c.args) == 1 and isinstance(c.args[0], ast.Name)
                         and env.get(c.args[0].id, ("",))[0] == "str") or self.builtin_call(c, "len", env, 1)
                        for st in s.body for c in ast.walk(st) if isinstance(c, ast.Call))
                and not any(isinstance(n, (ast.Raise, ast.BinOp, ast.Subscript, ast.Attribute)) and not (
                    isinstance(n, ast.Attribute) and n.attr == "findall") for st in s.body for n in ast.walk(st))):
            # try: <findall on text, len, comparisons, assignments, return> / except TypeError: pass -- nothing in the body can
            # raise TypeError (the pattern is a compiled expression, the argument is text): the handler is dead code
            return self.block(s.body + list(stmts[1:]), env, k, after)
        return Fn.block(self, stmts, env, k, after)

    def loop(self, s, rest, env, k, after):
        if (isinstance(s, ast.For) and isinstance(s.iter, ast.Tuple) and s.iter.elts and isinstance(s.target, ast.Name) and not s.orelse
                and all(isinstance(x, ast.Name) and self.module_of(x, env) for x in s.iter.elts) and getattr(self, "fullstate", False)):
            # for module in (_eui48, _eui64): unrolled; `break` continues after the loop, the end of the body with the next module
            mods, x = [self.module_of(m, env) for m in s.iter.elts], s.target.id
            outer = (env["@break"], env["@continue"])

            def leave(e):
                e = {key: val for key, val in e.items() if key != x}
                e["@break"], e["@continue"] = outer
                return self.block(rest, e, k, after)

            def iteration(i, e):
                if i == len(mods):
                    return leave(e)
                ie = dict(e)
                ie[x] = ("module", mods[i])
                ie["@break"], ie["@continue"] = leave, (lambda e2: iteration(i + 1, e2))
                return self.block(s.body, ie, lambda e2: iteration(i + 1, e2), [s] + rest + after)
            return iteration(0, env)
        return Fn.loop(self, s, rest, env, k, after)

    def if_cond(self, s, c, rest, env, k, after):
        """the tail of Fn.if_ for an already translated condition"""
        pre = self.take_pre()
        exits = (ast.Return, ast.Raise, ast.Break, ast.Continue, ast.Try)
        if not any(isinstance(n, exits) for st in s.body + s.orelse for n in ast.walk(st)):
            snap = self.snapshot()
            try:
                return self.wrap(pre, self.join(s, c, rest, env, k, after))
            except NoJoin:
                self.restore(snap)
        return self.wrap(pre, ("if", c, self.block(s.body + rest, env, k, after), self.block(s.orelse + rest, env, k, after)))

    def module_fn(self, m, name, node):
        """the translated module-level function `name` of netaddr/strategy/<m>.py (any unit over that file)"""
        for t in BY_FILE.get("netaddr/strategy/%s.py" % m, []):
            if any(k[0] is None and k[1] == name for k in t.specs):
                return t.get(None, name, node)
        bad(node, "%s.%s is not translated" % (m, name))

    def module_call(self, node, env):
        """self._module.f(..) on an EUI receiver: the object's strategy module is one of the two modules the file imports as
        _eui48 / _eui64, told apart by their regenerated `version` constants; any other _module is outside the class invariant"""
        alts, kind = [], None
        for m in ("eui48", "eui64"):
            if self.mod.imports.get("_" + m) != "netaddr.strategy." + m or ("_%s.version" % m) not in self.attrs:
                bad(node, "self._module.%s(..) in a file that does not import _eui48 / _eui64" % node.func.attr)
            d = self.module_fn(m, node.func.attr, node)
            npre = len(self.pre)
            r = self.generated_d(node, d, "", self.bind_args(node, d, env))
            if len(self.pre) != npre and alts:
                bad(node, "argument of self._module.%s(..) that can raise" % node.func.attr)
            k = r[1] if r[0] == "out" else r[0]
            if kind is not None:
                unify(node, k, kind, "results of the two strategy modules")
            kind = k
            alts.append((self.attrs["_%s.version" % m][1], r[2] if r[0] == "out" else "Ok %s" % r[1]))
        ver = self.attrs["self._module.version"][1]
        return ("out", kind, "(if (%s =? %s) then %s else if (%s =? %s) then %s else Raise Unsupported)" % (
            ver, alts[0][0], alts[0][1], ver, alts[1][0], alts[1][1]))

    def plain_import(self, alias, module):
        """is `alias` bound only by the top-level `import <module> as <alias>`?"""
        binds = [n for st in self.mod.tree.body for n in ([st] if isinstance(st, (ast.FunctionDef, ast.ClassDef)) else ast.walk(st))
                 if (isinstance(n, (ast.FunctionDef, ast.ClassDef)) and n.name == alias)
                 or (isinstance(n, ast.Name) and n.id == alias and isinstance(n.ctx, ast.Store))
                 or (isinstance(n, ast.alias) and (n.asname or n.name) == alias)]
        return (len(binds) == 1 and isinstance(binds[0], ast.alias) and binds[0].name == module
                and any(isinstance(st, ast.Import) and binds[0] in st.names for st in self.mod.tree.body))

    def struct_sizes(self, node):
        fmt = node.args[0].value if node.args and isinstance(node.args[0], ast.Constant) else None
        m = re.fullmatch(r">((?:\d*[BHI])+)", fmt) if isinstance(fmt, str) else None
        if not m:
            bad(node, "struct format other than a literal '>' followed by counted B / H / I fields")
        return [SRCF_STRUCT_SIZES[c] for n, c in re.findall(r"(\d*)([BHI])", m.group(1)) for _ in range(int(n or "1"))]

    def dialect_rec(self, node, name):
        """the record constant of the dialect class that the module-level or imported name `name` stands for"""
        imp = self.mod.imports.get(name)
        if imp:
            module, _, real = imp.rpartition(".")
            fn = module.replace(".", "/") + ".py"
            ts = [t for t in BY_FILE.get(fn, []) if FN_CLASS.get(t.out) is FnF]
            if not ts or FILES.index(ts[0].out) >= FILES.index(self.file):
                bad(node, "%s is imported from a module without an earlier SRCF unit" % name)
            return srcf_dialect_rec_const(ts[0], real, node)
        return srcf_dialect_rec_const(self.tr, name, node)

    # ---- SRCF: methods that build / replace the whole state of an EUI object (__init__, _set_value, __setstate__) --------------
    # A unit entry with the pseudo-parameter "self.*" is translated with the object's attributes tracked at translation time:
    # env["self._module"] = ("none", None) | ("module", (version term, "eui48" | "eui64" | None)), env["self._value"] / ["self._dialect"]
    # = ("none", None) | (type, term).  Every `if` on them duplicates the continuation, `for module in (_eui48, _eui64)` is unrolled,
    # so each path knows what is assigned.  The function answers the final state: (version, value) for _set_value, the record
    # {| ever; evalue; edialect |} for __init__ / __setstate__.  An exception leaves no object (or the old one) behind.
    STATE_KEYS = ("self._module", "self._value", "self._dialect")

    def init_fullstate(self, env):
        self.fullstate = "self.*" in self.ptypes_declared
        self.tryctx = None
        if not self.fullstate:
            return
        for key in ("self._value", "self._module.version", "self._module.width", "self._module.max_int"):
            self.attrs.pop(key, None)
        how = self.name.partition(":")[2].split("_")[0]
        if self.pyname == "_set_value":
            if how == "implicit":
                env["self._module"] = ("none", None)
            elif how in ("eui48", "eui64") and self.mod.imports.get("_" + how) == "netaddr.strategy." + how:
                env["self._module"] = ("module", ("src_%s_version" % how, how))
            else:
                bad(self.f, "_set_value variant %r" % how)
            self.result = "pair"
        else:
            self.result = "eui"

    def init_file_state(self, env):
        """a parser method reading the binary file self.fh and reporting rows through self.notify(): the file is the two leading
        parameters self_fh_lines (the lines readline() will return, terminators included) and self_fh_tell (what tell() answers);
        `x = self.fh.readline()` = `x, self_fh_lines, self_fh_tell = <py_readline>`; `self.notify(r)` appends r to the list
        self_notified, which the method returns when it ends normally (rows delivered before an exception are not represented)"""
        import copy
        f = copy.deepcopy(self.f)
        loc = lambda n, at: ast.copy_location(n, at)
        name = lambda x, ctx, at: loc(ast.Name(id=x, ctx=ctx), at)
        fn = self

        class T(ast.NodeTransformer):
            def visit_Assign(self, st):
                v = st.value
                if isinstance(v, ast.Call) and dotted(v.func) == "self.fh.readline" and not v.args and not v.keywords and len(st.targets) == 1 \
                        and isinstance(st.targets[0], ast.Name):
                    call = loc(ast.Call(func=name("_srcf_readline", ast.Load(), st), args=[name("self_fh_lines", ast.Load(), st),
                                                                                          name("self_fh_tell", ast.Load(), st)], keywords=[]), st)
                    tgt = loc(ast.Tuple(elts=[st.targets[0], name("self_fh_lines", ast.Store(), st), name("self_fh_tell", ast.Store(), st)],
                                        ctx=ast.Store()), st)
                    return loc(ast.Assign(targets=[tgt], value=call), st)
                return self.generic_visit(st)

            def visit_Call(self, n):
                n = self.generic_visit(n)
                if dotted(n.func) == "self.fh.tell" and not n.args and not n.keywords:
                    return name("self_fh_tell", ast.Load(), n)
                return n

            def visit_Expr(self, st):
                v = st.value
                if isinstance(v, ast.Call) and dotted(v.func) == "self.notify" and len(v.args) == 1 and not v.keywords:
                    arg = self.visit(v.args[0])
                    return loc(ast.Expr(value=loc(ast.Call(func=loc(ast.Attribute(value=name("self_notified", ast.Load(), st), attr="append",
                                                                                  ctx=ast.Load()), st), args=[arg], keywords=[]), st)), st)
                return self.generic_visit(st)
        f = T().visit(f)
        if any(isinstance(n, ast.Attribute) and (dotted(n) or "").startswith("self.fh") for n in ast.walk(f)) or any(
                isinstance(n, ast.Return) for n in ast.walk(f)):
            bad(self.f, "use of self.fh other than `x = self.fh.readline()` / self.fh.tell(), or a return statement")
        first = f.body[1] if f.body and isinstance(f.body[0], ast.Expr) and isinstance(f.body[0].value, ast.Constant) else f.body[0]
        init = loc(ast.Assign(targets=[name("self_notified", ast.Store(), first)], value=loc(ast.List(elts=[], ctx=ast.Load()), first)), first)
        ret = loc(ast.Return(value=name("self_notified", ast.Load(), f.body[-1])), f.body[-1])
        ret.lineno = ret.end_lineno = f.end_lineno
        doc = 1 if f.body and isinstance(f.body[0], ast.Expr) and isinstance(f.body[0].value, ast.Constant) else 0
        f.body = f.body[:doc] + [init] + f.body[doc:] + [ret]
        self.f = ast.fix_missing_locations(f)
        loops = sorted((n for n in ast.walk(self.f) if isinstance(n, (ast.For, ast.While))), key=lambda n: (n.lineno, n.col_offset))
        self.loopno = {id(n): i + 1 for i, n in enumerate(loops)}
        for x, ty in (("self_fh_lines", ("list", Cell("str"))), ("self_fh_tell", "int")):
            cn = self.coqname(self.f, x)
            env[x] = (ty, cn)
            env["@taint"] |= {x}
            self.params.append((cn, ty))

    def init_dicts(self, env):
        """a dict with constant string keys held in a local (`dict:<name>`: created by a dict literal in the method) or in an attribute
        (`dict:self.<attr>`: its fields, with their declared types, are leading parameters and the method answers the new dict) is one
        variable per key: d['k'] = the name d__k.  The dict itself may only be used as `self.<list>.append(d)` in the last statement
        (the method answers d) -- or not at all for an attribute dict.  A for loop whose body rebinds its own loop variable gets a
        fresh loop variable (`for x in l: x = f(x)` = `for x__it in l: x = x__it; x = f(x)`)."""
        import copy
        f = copy.deepcopy(self.f)
        loc = lambda n, at: ast.copy_location(n, at)
        dicts = {}
        for key in self.ptypes_declared:
            if key.startswith("dict:"):
                path = key[5:]
                fields = [x.partition(":") for x in self.spec_types[key].split(",")]
                dicts[path] = (path.replace(".", "_"), [(k, t or None) for k, _, t in fields])
        fn = self

        class T(ast.NodeTransformer):
            def visit_Subscript(self, n):
                path = dotted(n.value)
                if path in dicts and isinstance(n.slice, ast.Constant) and isinstance(n.slice.value, str):
                    if n.slice.value not in [k for k, _ in dicts[path][1]]:
                        bad(n, "key %r of %s is not declared" % (n.slice.value, path))
                    return loc(ast.Name(id="%s__%s" % (dicts[path][0], n.slice.value), ctx=n.ctx), n)
                return self.generic_visit(n)

            def visit_Assign(self, st):
                if (len(st.targets) == 1 and dotted(st.targets[0]) in dicts and "." not in dotted(st.targets[0]) and isinstance(st.value, ast.Dict)):
                    base, fields = dicts[dotted(st.targets[0])]
                    keys = [k.value if isinstance(k, ast.Constant) else None for k in st.value.keys]
                    if keys != [k for k, _ in fields]:
                        bad(st, "dict literal whose keys are not the declared ones, in order")
                    return [loc(ast.Assign(targets=[loc(ast.Name(id="%s__%s" % (base, k), ctx=ast.Store()), st)], value=self.visit(v)), st)
                            for k, v in zip(keys, st.value.values)]
                return self.generic_visit(st)

            def visit_For(self, st):
                st = self.generic_visit(st)
                if isinstance(st.target, ast.Name) and st.target.id in assigned_names(st.body):
                    x = st.target.id
                    st.body = [loc(ast.Assign(targets=[loc(ast.Name(id=x, ctx=ast.Store()), st)],
                                              value=loc(ast.Name(id=x + "__it", ctx=ast.Load()), st)), st)] + st.body
                    st.target = loc(ast.Name(id=x + "__it", ctx=ast.Store()), st)
                return st
        last = f.body[-1]
        local = [p for p in dicts if "." not in p]
        if (local and isinstance(last, ast.Expr) and isinstance(last.value, ast.Call) and isinstance(last.value.func, ast.Attribute)
                and last.value.func.attr == "append" and (dotted(last.value.func.value) or "").startswith("self.") and len(last.value.args) == 1
                and dotted(last.value.args[0]) in local and not last.value.keywords):
            base, fields = dicts[dotted(last.value.args[0])]      # self.<list>.append(d) at the end: the method answers d
            f.body[-1] = loc(ast.Return(value=loc(ast.Tuple(elts=[loc(ast.Name(id="%s__%s" % (base, k), ctx=ast.Load()), last) for k, _ in fields],
                                                            ctx=ast.Load()), last)), last)
        f = T().visit(f)
        for path, (base, fields) in dicts.items():
            if "." in path:                                  # an attribute dict: its fields are parameters, the new dict is the result
                if any(isinstance(n, ast.Return) for n in ast.walk(f)):
                    bad(self.f, "return in a method that updates the dict %s" % path)
                f.body.append(loc(ast.Return(value=loc(ast.Tuple(elts=[loc(ast.Name(id="%s__%s" % (base, k), ctx=ast.Load()), last) for k, _ in fields],
                                                                 ctx=ast.Load()), last)), last))
                f.body[-1].lineno = f.body[-1].end_lineno = f.end_lineno
                for k, t in fields:
                    x = "%s__%s" % (base, k)
                    ty = parse_type(t)
                    cn = self.coqname(self.f, x)
                    env[x] = (ty, cn)
                    env["@taint"] |= {x}
                    self.params.append((cn, ty))
        if any(isinstance(n, (ast.Name, ast.Attribute)) and dotted(n) in dicts for n in ast.walk(f)):
            bad(self.f, "use of a declared dict other than d['key'] / self.<list>.append(d) as the last statement")
        self.f = ast.fix_missing_locations(f)
        loops = sorted((n for n in ast.walk(self.f) if isinstance(n, (ast.For, ast.While))), key=lambda n: (n.lineno, n.col_offset))
        self.loopno = {id(n): i + 1 for i, n in enumerate(loops)}

    def compat_bytes_type(self):
        """is _bytes_type bound in netaddr/compat.py only as `lambda x: bytes(x, 'UTF-8')` or as `str`?"""
        fn = "netaddr/compat.py"
        tree = ast.parse(open(os.path.join(REPO, fn), encoding="utf-8").read())
        binds = [n for n in ast.walk(tree) if (isinstance(n, (ast.FunctionDef, ast.ClassDef)) and n.name == "_bytes_type")
                 or (isinstance(n, ast.alias) and (n.asname or n.name) == "_bytes_type")
                 or (isinstance(n, (ast.Assign, ast.AugAssign, ast.AnnAssign)) and any(
                     isinstance(t, ast.Name) and t.id == "_bytes_type" and isinstance(t.ctx, ast.Store) for t in ast.walk(n)))]
        ok = lambda b: isinstance(b, ast.Assign) and len(b.targets) == 1 and (dotted(b.value) == "str" or (
            isinstance(b.value, ast.Lambda) and len(b.value.args.args) == 1 and isinstance(b.value.body, ast.Call)
            and dotted(b.value.body.func) == "bytes" and len(b.value.body.args) == 2 and dotted(b.value.body.args[0]) == b.value.args.args[0].arg
            and isinstance(b.value.body.args[1], ast.Constant) and b.value.body.args[1].value == "UTF-8"))
        if not binds or not all(ok(b) for b in binds):
            bad(binds[-1] if binds else None, "_bytes_type is not bound in compat.py the way the translator assumes", fn)
        return True

    def module_of(self, node, env):
        """the module descriptor an expression denotes at translation time, else None"""
        if isinstance(node, ast.Name) and node.id in env and env[node.id][0] == "module":
            return env[node.id][1]
        if (isinstance(node, ast.Name) and node.id not in env and node.id in ("_eui48", "_eui64")
                and self.mod.imports.get(node.id) == "netaddr.strategy." + node.id[1:]):
            return ("src_%s_version" % node.id[1:], node.id[1:])
        if dotted(node) == "self._module" and self.fullstate and env.get("self._module", ("",))[0] == "module":
            return env["self._module"][1]
        if (isinstance(node, ast.Attribute) and node.attr == "_module" and isinstance(node.value, ast.Name)
                and env.get(node.value.id, ("",))[0] == "eui"):
            return ("(ever %s)" % env[node.value.id][1], None)
        return None

    def leaf(self, env, kind, term, wrapped=False):
        if getattr(self, "fullstate", False) and kind == "none" and env["@break"] is None:
            m, v, d = [env.get(key, ("none", None)) for key in self.STATE_KEYS]
            if m[0] != "module" or v[0] != "int" or (self.result == "eui" and d[0] != "edialect"):
                bad(self.f, "the object state is not completely assigned where the method ends")
            if self.result == "pair":
                return ("ret", ("tup", ("int", "int")), "(%s, %s)" % (m[1][0], v[1]), False)
            return ("ret", "eui", "{| ever := %s; evalue := %s; edialect := %s |}" % (m[1][0], v[1], d[1]), False)
        return Fn.leaf(self, env, kind, term, wrapped)

    def text(self):
        t = Fn.text(self)
        if getattr(self, "fullstate", False) or getattr(self, "no_state_text", False):           # no receiver state: the method makes it / a classmethod
            t = t.replace("Definition %s (%s : Z)" % (self.cname, " ".join(STATE[self.recv])), "Definition %s" % self.cname)
        return t

    def setter_variant(self, node, env, ty):
        m = env.get("self._module", ("",))
        how = "implicit" if m[0] == "none" else m[1][1] if m[0] == "module" and m[1][1] else None
        if how is None or ty not in ("int", "str"):
            bad(node, "self.value = <%s> with a module that is not known at translation time" % show(ty))
        return "_set_value:%s_%s" % (how, ty)

    def state_assign(self, s, tgt, value, env, go):
        path = dotted(tgt)
        env = dict(env)
        if path == "self._module":
            if isinstance(value, ast.Constant) and value.value is None:
                env[path] = ("none", None)
                return go(env)
            m = self.module_of(value, env)
            if m is None:
                bad(s, "self._module = something that is not one of the two strategy modules")
            env[path] = ("module", m)
            return go(env)
        if path == "self._value":
            if isinstance(value, ast.Constant) and value.value is None:
                env[path] = ("none", None)
                return go(env)
            t = self.int_(value, env)
            pre = self.take_pre()
            if not re.fullmatch(r"\w+|\(\w+ \w+\)", t):
                cn = self.fresh()
                env[path] = ("int", cn)
                return self.wrap(pre, ("let", cn, t, go(env)))
            env[path] = ("int", t)
            return self.wrap(pre, go(env))
        if path == "self.value":                         # the property setter: _set_value for the module known here
            ty, t = self.ex(value, env)
            name = self.setter_variant(s, env, ty)
            d = self.tr.get("EUI", name, s)
            r = self.generated_d(s, d, "", [(ty, t)])
            pre, h = self.take_pre(), self.fresh()
            old = env["self._module"]
            env["self._module"] = ("module", ("(fst %s)" % h, None)) if old[0] == "none" else old
            env["self._value"] = ("int", "(snd %s)" % h)
            return self.wrap(pre, ("bind", h, r[2], go(env)))
        if path == "self.dialect":                       # the property setter: _set_dialect = _validate_dialect
            r = self.mod.lookup("EUI", "_set_dialect")
            if not r or dotted(r[1].body[-1].value.func if isinstance(r[1].body[-1], ast.Assign) and isinstance(r[1].body[-1].value, ast.Call) else None) != "self._validate_dialect":
                bad(s, "_set_dialect is not `self._dialect = self._validate_dialect(value)`")
            m, v = env.get("self._module", ("",)), env.get("self._value", ("",))
            if m[0] != "module" or v[0] != "int":
                bad(s, "self.dialect = .. before the module and the value are assigned")
            ty, t = self.ex(value, env)
            ty, t = self.coerce(s, ty, t, "darg")
            d = self.tr.get("EUI", "_set_dialect", s)
            r = self.generated_d(s, d, "%s %s" % (m[1][0], v[1]), [(ty, t)])
            pre, h = self.take_pre(), self.fresh()
            env["self._dialect"] = ("edialect", h)
            return self.wrap(pre, ("bind", h, r[2], go(env)))
        bad(s, "assignment to %s" % path)

    def wrap(self, pre, ir):
        """Fn.wrap; inside `try: .. except E: pass` a hoisted call that raises E continues with the statements after the try"""
        ctx = getattr(self, "tryctx", None)
        for it in reversed(pre):
            if it[0] == "guard":
                ir = ("if", it[1], ctx[1]() if ctx and it[2] == ctx[0] else ("raise", it[2]), ir)
            elif ctx:
                ir = ("trybind", it[1], it[2], ir, ctx[0], ctx[1]())
            else:
                ir = ("bind", it[1], it[2], ir)
        return ir

    @staticmethod
    def children(ir):
        return [ir[3], ir[5]] if ir[0] == "trybind" else Fn.children(ir)

    def effects(self, ir):
        return ir[0] == "trybind" or Fn.effects(self, ir)

    def outside_try(self, cont):
        def run(e):
            saved, self.tryctx = self.tryctx, None
            try:
                return cont(e)
            finally:
                self.tryctx = saved
        return run

    def try_pass_state(self, s, rest, env, k, after):
        """try: body / except E: pass in a full-state method (CPS): a call of the body that raises E jumps to the statements after
        the try, with the state as it was on entry (no call may follow a state assignment inside the body)"""
        h = s.handlers[0]
        seen_assign = False
        for st in [n for b in s.body for n in ast.walk(b) if isinstance(n, ast.stmt)]:
            if seen_assign and any(isinstance(n, ast.Call) for n in ast.walk(st)) and not isinstance(st, ast.If):
                bad(st, "call after a state assignment inside try")
            if isinstance(st, ast.Assign) and dotted(st.targets[0]) in self.STATE_KEYS:
                seen_assign = True
        if s.orelse or s.finalbody or h.name or not isinstance(h.type, ast.Name) or h.type.id not in EXN or h.type.id in env:
            bad(s, "try statement other than `try: body / except E: pass`")
        follow = self.outside_try(lambda e: self.block(rest, e, k, after))
        benv = dict(env)
        for key in ("@break", "@continue"):
            if env[key] is not None:
                benv[key] = self.outside_try(env[key])
        saved, self.tryctx = self.tryctx, (h.type.id, lambda: follow(env))
        try:
            return self.block(s.body, benv, lambda e: follow({**e, "@break": env["@break"], "@continue": env["@continue"]}), rest + after)
        finally:
            self.tryctx = saved

    def try_ex(self, node, env):
        """self.ex for a speculative reading (the caller restores its snapshot): (None, None) where the expression is outside
        the subset, so that the construct can still be tried by Fn"""
        try:
            return self.ex(node, env)
        except Untranslatable:
            return (None, None)

    # ---- expressions
    def rhs(self, node, env):
        if isinstance(node, ast.Attribute) and node.attr in ("version", "max_int", "width") and self.module_of(node.value, env):
            vterm, name = self.module_of(node.value, env)       # an attribute of a strategy module known at translation time
            if node.attr == "version":
                return ("int", vterm)
            if name is None:
                bad(node, "%s of a module that is only known by its version" % node.attr)
            return ("int", "src_%s_%s" % (name, node.attr))
        if isinstance(node, ast.Attribute):
            path = dotted(node) or ""
            head, _, tail = path.rpartition(".")
            base = env.get(head) if head in env else self.attrs.get(head)
            if base and base[0] == "edialect" and tail in ("word_size", "num_words", "word_sep", "word_fmt"):
                return ("int" if tail in ("word_size", "num_words") else "str", "(d_%s %s)" % (tail, base[1]))
        if (isinstance(node, ast.Name) and node.id not in env and isinstance(node.ctx, ast.Load) and self.recv is None
                and node.id in SRCF_TABLES.get(self.tr.prefix, {}) and self.mod.toplevel(node.id)):
            return (("list", Cell("pat")), SRCF_TABLES[self.tr.prefix][node.id])       # the list of compiled patterns: the matchers
        if isinstance(node, ast.Tuple) and len(node.elts) == 1 and isinstance(node.ctx, ast.Load):
            ty, t = self.ex(node.elts[0], env)
            if ty == "str":
                return (("list", Cell("str")), "[%s]" % t)
            if is_list(ty) and ty[1].find().t == "str":     # (g,) where g is the groups of a one-group match: that group, as text
                return (("list", Cell("str")), "[py_group_str %s]" % t)
            bad(node, "1-tuple of %s" % show(ty))
        if (isinstance(node, ast.Name) and node.id not in env and isinstance(node.ctx, ast.Load)
                and re.fullmatch(r"netaddr\.strategy\.eui(48|64)\.\w+", self.mod.imports.get(node.id) or "")
                and not node.id.startswith("_")):
            return ("edialect", self.dialect_rec(node, node.id))       # a dialect class imported from a strategy module: its record
        if (isinstance(node, ast.Compare) and len(node.ops) == 1 and isinstance(node.left, ast.Tuple)
                and isinstance(node.comparators[0], ast.Tuple) and type(node.ops[0]) in CMP
                and len(node.left.elts) == len(node.comparators[0].elts) > 0):
            # comparison of two tuples of ints of the same length: equality componentwise, order lexicographic
            xs = [self.int_(x, env) for x in node.left.elts]
            ys = [self.int_(x, env) for x in node.comparators[0].elts]
            op = type(node.ops[0])
            if op in (ast.Eq, ast.NotEq):
                t = "(%s)" % " && ".join("(%s =? %s)" % p for p in zip(xs, ys))
                return ("bool", t if op is ast.Eq else "(negb %s)" % t)
            strict = {ast.Lt: ast.Lt, ast.LtE: ast.Lt, ast.Gt: ast.Gt, ast.GtE: ast.Gt}[op]
            t = CMP[op] % (xs[-1], ys[-1])
            for x, y in reversed(list(zip(xs[:-1], ys[:-1]))):
                t = "(%s || ((%s =? %s) && %s))" % (CMP[strict] % (x, y), x, y, t)
            return ("bool", t)
        if isinstance(node, ast.BinOp) and isinstance(node.op, ast.Add):
            snap, pre0 = self.snapshot(), list(self.pre)
            (ta, a), (tb, b) = self.try_ex(node.left, env), self.try_ex(node.right, env)
            if ta == "str" and tb == "str":
                return ("str", "(String.append %s %s)" % (a, b))      # concatenation of bytes / text
            self.restore(snap)
            self.pre = pre0
        if isinstance(node, ast.Compare) and len(node.ops) == 1 and isinstance(node.ops[0], ast.In) and dotted(node.left) != "self":
            snap, pre0 = self.snapshot(), list(self.pre)
            (ta, a), (tb, b) = self.try_ex(node.left, env), self.try_ex(node.comparators[0], env)
            if ta == "str" and tb == "str":
                return ("bool", "(py_bytes_in %s %s)" % (a, b))        # needle in hay on bytes
            self.restore(snap)
            self.pre = pre0
        if isinstance(node, ast.BinOp) and isinstance(node.op, ast.Mod):
            snap, pre0 = self.snapshot(), list(self.pre)
            ty, t = self.try_ex(node.left, env)
            if ty == "str":                                 # text % int, text % tuple(<list of ints>)
                r = node.right
                if isinstance(r, ast.Tuple):              # text % (a, b, ..) with ints
                    return ("out", "str", "(py_fmt_ints %s [%s])" % (t, "; ".join(self.int_(x, env) for x in r.elts)))
                if self.builtin_call(r, "tuple", env, 1):
                    lty, lt = self.ex(r, env)
                    if not is_list(lty) or lty[1].find().t != "int":
                        bad(node, "%% of text and a tuple of %s" % show(lty))
                    return ("out", "str", "(py_fmt_ints %s %s)" % (t, lt))
                return ("out", "str", "(py_fmt_int %s %s)" % (t, self.int_(r, env)))
            self.restore(snap)
            self.pre = pre0
        return Fn.rhs(self, node, env)

    def subscript(self, node, env):
        sl = node.slice
        v = node.value
        if (const_int(sl) == 2 and isinstance(v, ast.Call) and isinstance(v.func, ast.Attribute) and v.func.attr == "split" and not v.keywords
                and len(v.args) == 2 and isinstance(v.args[0], ast.Constant) and v.args[0].value is None and const_int(v.args[1]) == 2
                and self.tr.out == "pysrc_euic_gen.v"):
            snap, pre0 = self.snapshot(), list(self.pre)
            ty, t = self.try_ex(v.func.value, env)
            if ty == "str":
                return ("out", "str", "(py_str_field3 %s)" % t)             # s.split(None, 2)[2]
            self.restore(snap)
            self.pre = pre0
        if (const_int(sl) == 0 and isinstance(v, ast.Call) and isinstance(v.func, ast.Attribute) and v.func.attr == "split" and not v.keywords
                and len(v.args) <= 1 and self.tr.out == "pysrc_ieee_gen.v"):
            snap, pre0 = self.snapshot(), list(self.pre)
            ty, t = self.ex(v.func.value, env)
            if ty == "str" and not v.args:
                return ("out", "str", "(py_bytes_split0 %s)" % t)          # b.split()[0]
            if ty == "str":
                sty, st = self.ex(v.args[0], env)
                if sty == "str":
                    return ("out", "str", "(py_bytes_split_sep0 %s %s)" % (st, t))      # b.split(sep)[0]
            self.restore(snap)
            self.pre = pre0
        if isinstance(v, ast.Name) and env.get(v.id, ("",))[0] in self.OPTLIST and const_int(sl) is not None:
            # x[k] on None-or-list: TypeError on None, IndexError outside the list
            return ("out", self.OPTLIST[env[v.id][0]], "(match %s with Some h0 => py_getitem_o h0 %d | None => Raise TypeError end)" % (
                env[v.id][1], const_int(sl)))
        if True:
            snap, pre0 = self.snapshot(), list(self.pre)
            ty, t = self.ex(node.value, env)
            if ty == "matches" and const_int(sl) == 0:      # findall(..)[0]: the groups of the first match (IndexError for [])
                return ("out", ("list", Cell("str")), "(py_match0 %s)" % t)
            if is_list(ty) and isinstance(sl, ast.Slice):
                a, b = const_int(sl.lower) if sl.lower is not None else None, const_int(sl.upper) if sl.upper is not None else None
                if a is not None and b is not None and 0 <= a <= b and sl.step is None:
                    return (("list", ty[1]), "(py_slice_lit %d %d %s)" % (a, b, t))      # l[a:b], literals 0 <= a <= b
            elif is_list(ty) and ty[1].find().t is not None:
                return ("out", ty[1].find().t, "(py_getitem_o %s %s)" % (t, self.int_(sl, env)))     # l[i], computed index
            self.restore(snap)
            self.pre = pre0
        return Fn.subscript(self, node, env)

    def call(self, node, env):
        f = node.func
        if isinstance(f, ast.Attribute) and self.module_of(f.value, env) and self.module_of(f.value, env)[1]:
            m = self.module_of(f.value, env)[1]
            d = self.module_fn(m, self.variant_for(BY_FILE.get("netaddr/strategy/%s.py" % m, []), f.attr, node, env), node)   # <module known at translation time>.f(..)
            return self.generated_d(node, d, "", self.bind_args(node, d, env))
        if self.builtin_call(node, "int", env, 1):
            snap, pre0 = self.snapshot(), list(self.pre)
            ty, t = self.ex(node.args[0], env)
            if ty == "str":
                return ("out", "int", "(py_int_o 10 %s)" % t)      # int(text): ValueError
            self.restore(snap)
            self.pre = pre0
        if (self.recv == "EUI" and isinstance(f, ast.Attribute) and dotted(f) == "self._module." + f.attr
                and "self._module" not in env):
            return self.module_call(node, env)
        if (self.recv and self.recv not in STATEVARS and isinstance(f, ast.Attribute) and dotted(f) == "self." + f.attr
                and f.attr != "__class__" and "self" not in env):
            r = self.mod.lookup(self.recv, f.attr)          # self.m(args): arguments by m's signature and declared types
            if not r or r[2]:
                bad(node, "call of self.%s" % f.attr)
            d = self.tr.get(self.recv, f.attr, node)
            return self.generated(node, self.recv, f.attr, self.state(env), self.bind_args(node, d, env))
        if dotted(f) in ("_struct.pack", "_struct.unpack") and "_struct" not in env and self.plain_import("_struct", "struct"):
            if node.keywords or len(node.args) < 2:
                bad(node, "struct call with an unsupported argument list")
            sizes = "[%s]" % "; ".join("%d%%nat" % n for n in self.struct_sizes(node))
            if f.attr == "pack" and len(node.args) == 2 and isinstance(node.args[1], ast.Starred):
                ty, vals = self.ex(node.args[1].value, env)              # pack(fmt, *l)
                unify(node, ty, ("list", Cell("int")), "values of struct.pack")
            elif f.attr == "pack":
                vals = "[%s]" % "; ".join(self.int_(x, env) for x in node.args[1:])
            else:
                if len(node.args) != 2:
                    bad(node, "struct.unpack with an unsupported argument list")
                ty, vals = self.ex(node.args[1], env)
                unify(node, ty, ("list", Cell("int")), "buffer of struct.unpack")
            return ("out", ("list", Cell("int")), "(py_struct_%s %s %s)" % (f.attr, sizes, vals))
        if (self.builtin_call(node, "list", env, 1) and not (isinstance(node.args[0], ast.Call) and isinstance(node.args[0].func, ast.Attribute)
                                                              and node.args[0].func.attr == "subnet")):
            r = self.rhs(node.args[0], env)                 # list(<list / tuple>): a new list with the same elements
            if is_list(r[1] if r[0] == "out" else r[0]):
                return r
            bad(node, "list() of %s" % show(r[1] if r[0] == "out" else r[0]))
        if (self.builtin_call(node, "str", env, 1) and dotted(node.args[0]) == "self" and "self" not in env and self.recv
                and self.mod.lookup(self.recv, "__str__")):
            return self.generated(node, self.recv, "__str__", self.state(env), [])       # str(self) = self.__str__()
        if (isinstance(f, ast.Attribute) and f.attr in ("split", "strip") and not node.keywords and self.tr.out == "pysrc_euic_gen.v"
                and (f.attr == "strip" and not node.args or f.attr == "split" and len(node.args) == 1 and isinstance(node.args[0], ast.Constant)
                     and node.args[0].value == "\n")):
            snap, pre0 = self.snapshot(), list(self.pre)
            ty, t = self.try_ex(f.value, env)
            if ty == "str":
                return ("str", "(py_str_strip %s)" % t) if f.attr == "strip" else (("list", Cell("str")), "(py_str_split_nl %s)" % t)
            self.restore(snap)
            self.pre = pre0
        if isinstance(f, ast.Attribute) and f.attr == "replace" and len(node.args) == 2 and not node.keywords:
            snap, pre0 = self.snapshot(), list(self.pre)
            ty, t = self.ex(f.value, env)
            if ty == "bi":                                  # x.replace(a, b) where x is bytes or an int: AttributeError for an int
                h = self.fresh()
                self.hoist(node, ("bind", h, "(bi_bytes %s)" % t))
                (ta, a), (tb, b) = self.ex(node.args[0], env), self.ex(node.args[1], env)
                if ta != "str" or tb != "str":
                    bad(node, "replace() with arguments that are no bytes")
                return ("str", "(replace %s %s %s)" % (a, b, h))
            self.restore(snap)
            self.pre = pre0
        if (dotted(f) == "_bytes_type" and "_bytes_type" not in env and self.mod.imports.get("_bytes_type") == "netaddr.compat._bytes_type"
                and len(node.args) == 1 and not node.keywords and isinstance(node.args[0], ast.Constant) and isinstance(node.args[0].value, str)
                and self.compat_bytes_type()):
            return self.rhs(node.args[0], env)              # _bytes_type('text'): the bytes of an ASCII literal
        if dotted(f) == "_srcf_readline" and "self.fh" in self.ptypes_declared:
            (_, a), (_, b) = self.ex(node.args[0], env), self.ex(node.args[1], env)
            return (("tup", ("str", ("list", Cell("str")), "int")), "(py_readline %s %s)" % (a, b))
        if self.builtin_call(node, "int", env, 2) and const_int(node.args[1]) == 16 and self.tr.out == "pysrc_ieee_gen.v":
            ty, t = self.ex(node.args[0], env)
            if ty != "str":
                bad(node, "int(x, 16) of %s" % show(ty))
            return ("out", "int", "(py_int16_bytes %s)" % t)       # int(b, 16) of a bytes object: Model/Ieee.v int16
        if self.builtin_call(node, "int", env, 2) and const_int(node.args[1]) in (10, 16):
            ty, t = self.ex(node.args[0], env)
            if ty != "str":
                bad(node, "int(x, base) of %s" % show(ty))
            return ("out", "int", "(py_int_o %d %s)" % (const_int(node.args[1]), t))
        if isinstance(f, ast.Attribute) and f.attr == "join" and len(node.args) == 1 and not node.keywords:
            snap, pre0 = self.snapshot(), list(self.pre)
            ty, t = self.ex(f.value, env)
            if ty == "str":                                 # sep.join(<list of text>)
                lty, lt = self.ex(node.args[0], env)
                unify(node, lty, ("list", Cell("str")), "argument of join")
                return ("str", "(join %s %s)" % (t, lt))
            self.restore(snap)
            self.pre = pre0
        if (isinstance(f, ast.Attribute) and f.attr == "findall" and isinstance(f.value, ast.Name) and env.get(f.value.id, ("",))[0] == "pat"
                and len(node.args) == 1 and not node.keywords):
            ty, t = self.ex(node.args[0], env)              # <compiled pattern>.findall(text): Model/Eui.v match_pat
            if ty == "int":                                 # findall of something that is no text: TypeError
                return ("out", "matches", "(Raise TypeError)")
            if ty != "str":
                bad(node, "findall() of %s" % show(ty))
            return ("matches", "(py_findall %s %s)" % (env[f.value.id][1], t))
        if self.builtin_call(node, "len", env, 1):
            snap, pre0 = self.snapshot(), list(self.pre)
            ty, t = self.ex(node.args[0], env)
            if ty == "matches":
                return ("int", "(py_matches_len %s)" % t)
            self.restore(snap)
            self.pre = pre0
        if (self.builtin_call(node, "hash", env, 1) and isinstance(node.args[0], ast.Tuple) and len(node.args[0].elts) == 2):
            a, b = [self.int_(x, env) for x in node.args[0].elts]
            return (("tup", ("int", "int")), "(py_hash_pair (%s, %s))" % (a, b))
        return Fn.call(self, node, env)

    def listcomp(self, node, env):
        """[e for x in xs] -> map (fun x => e) xs, or py_map_o (fun x => <the calls of e that can raise, in order>; Ok e) xs"""
        g = node.generators
        if len(g) == 1 and not g[0].ifs and not g[0].is_async and isinstance(g[0].target, ast.Name) and g[0].target.id not in env:
            ty, t = self.ex(g[0].iter, env)
            elem = ty[1].find().t if is_list(ty) else None
            if elem is None:
                bad(node, "comprehension over %s" % show(ty))
            cn, lenv = self.bind_local(g[0].target, g[0].target.id, elem, env, g[0].iter)
            saved, self.pre = self.pre, []
            ety, et = self.ex(node.elt, lenv)
            inner, self.pre = self.pre, saved
            if not is_value(ety):
                bad(node, "comprehension element of kind %s" % show(ety))
            if not inner:
                return (("list", Cell(ety)), "(map (fun %s => %s) %s)" % (cn, et, t))
            body = "".join("(if %s then Raise %s else " % (it[1], it[2]) if it[0] == "guard" else "do %s <- %s; " % (it[1], it[2]) for it in inner)
            body += "Ok %s" % et + ")" * sum(it[0] == "guard" for it in inner)
            return ("out", ("list", Cell(ety)), "(py_map_o (fun %s => %s) %s)" % (cn, body, t))
        return Fn.listcomp(self, node, env)

    # ---- statements
    def assign(self, s, env, go):
        tgt = s.targets[0] if isinstance(s, ast.Assign) and len(s.targets) == 1 else None
        if isinstance(tgt, ast.Name) and getattr(self, "local_types", {}).get(tgt.id) in self.OPTLIST:
            # a local declared `optintlist` / `optbilist`: None or a list of ints / of bytes-or-int values
            oty = self.local_types[tgt.id]
            if isinstance(s.value, ast.Constant) and s.value.value is None:
                cn, env = self.bind_local(tgt, tgt.id, oty, env, s.value)
                return ("let", cn, "None", go(env))
            if oty == "optbilist" and isinstance(s.value, ast.List):
                t = "[%s]" % "; ".join(self.as_bi(x, env) for x in s.value.elts)
            else:
                ty, t = self.ex(s.value, env)
                unify(s, ty, ("list", Cell(self.OPTLIST[oty])), "value of %s" % tgt.id)
            pre = self.take_pre()
            cn, env = self.bind_local(tgt, tgt.id, oty, env, s.value)
            return self.wrap(pre, ("let", cn, "(Some %s)" % t, go(env)))
        if (isinstance(tgt, ast.Subscript) and isinstance(tgt.value, ast.Name) and env.get(tgt.value.id, ("",))[0] == "optbilist"
                and const_int(tgt.slice) is not None):
            # x[k] = e on None-or-list: TypeError on None
            x, old = tgt.value.id, env[tgt.value.id][1]
            e = self.as_bi(s.value, env)
            pre, l, l2 = self.take_pre(), self.fresh(), self.fresh()
            cn, env = self.bind_local(s, x, "optbilist", env, s.value)
            return self.wrap(pre, ("omatch", old, [("Some", [l], ("bind", l2, "(py_setitem_o %s %d %s)" % (l, const_int(tgt.slice), e),
                                                                   ("let", cn, "(Some %s)" % l2, go(env)))),
                                                  ("None", [], ("raise", "TypeError"))]))
        if getattr(self, "fullstate", False) and tgt is not None and dotted(tgt) in self.STATE_KEYS + ("self.value", "self.dialect"):
            return self.state_assign(s, tgt, s.value, env, go)
        if (isinstance(tgt, ast.Subscript) and isinstance(tgt.value, ast.Name) and is_list(env.get(tgt.value.id, ("",))[0])
                and not isinstance(tgt.slice, ast.Slice)):
            l = tgt.value.id                                             # l[i] = e on a list (no second name: no aliasing)
            lty, lt = env[l]
            idx = self.int_(tgt.slice, env)
            ty, t = self.ex(s.value, env)
            unify(s, ("list", Cell(ty)), lty, "assigned element")
            pre = self.take_pre()
            cn, env = self.bind_local(s, l, lty, env)
            return self.wrap(pre, ("bind", cn, "(py_setitem_o %s %s %s)" % (lt, idx, t), go(env)))
        if (tgt is not None and dotted(tgt) == "self._value" and "self._value" in self.attrs and isinstance(s.value, ast.Call)):
            if env["@mut"] or env["@break"] is not None:                 # self._value = <call that can raise>
                bad(s, "state assignment inside a loop / second state assignment")
            t = self.int_(s.value, env)
            pre, env = self.take_pre(), dict(env)
            env["@mut"], env["self._value"] = ("self._value", t), ("int", t)
            return self.wrap(pre, go(env))
        return Fn.assign(self, s, env, go)

    def if_(self, s, rest, env, k, after):
        t, neg = s.test, False
        if isinstance(t, ast.UnaryOp) and isinstance(t.op, ast.Not):
            t, neg = t.operand, True
        isnone = (isinstance(t, ast.Compare) and len(t.ops) == 1 and isinstance(t.ops[0], (ast.Is, ast.IsNot))
                  and isinstance(t.comparators[0], ast.Constant) and t.comparators[0].value is None)
        if isnone and getattr(self, "fullstate", False) and dotted(t.left) == "self._module" and "self._module" in env:
            # self._module is [not] None: known at translation time
            yes = ((env["self._module"][0] == "none") == isinstance(t.ops[0], ast.Is)) != neg
            return self.block((s.body if yes else s.orelse) + rest, env, k, after)
        conj = t.values if isinstance(t, ast.BoolOp) and isinstance(t.op, ast.And) and not neg else [t]
        c0 = conj[0]
        if (isinstance(c0, ast.Compare) and len(c0.ops) == 1 and isinstance(c0.ops[0], (ast.Is, ast.IsNot)) and isinstance(c0.left, ast.Name)
                and isinstance(c0.comparators[0], ast.Constant) and c0.comparators[0].value is None
                and env.get(c0.left.id, ("",))[0] == "optint" and (len(conj) == 1 or isinstance(c0.ops[0], ast.IsNot))):
            # `if x is [not] None [and <more>]` on None-or-int: in the Some arm x is the int
            x, cn = c0.left.id, self.coqname(s, c0.left.id + "_v")
            senv = dict(env)
            senv[x] = ("int", cn)
            some_yes = isinstance(c0.ops[0], ast.IsNot) != (neg and len(conj) == 1)
            if len(conj) > 1:
                more = conj[1] if len(conj) == 2 else ast.copy_location(ast.BoolOp(op=ast.And(), values=conj[1:]), t)
                inner = ast.copy_location(ast.If(test=more, body=s.body, orelse=s.orelse), s)
                some_ir = self.block([inner] + rest, senv, k, after)
            else:
                some_ir = self.block((s.body if some_yes else s.orelse) + rest, senv, k, after)
            none_yes = not some_yes if len(conj) == 1 else False
            nenv = dict(env)
            nenv[x] = ("none", None)
            return ("omatch", env[x][1], [("Some", [cn], some_ir), ("None", [], self.block((s.body if none_yes else s.orelse) + rest, nenv, k, after))])
        if (not neg and isinstance(t, ast.Compare) and len(t.ops) == 1 and isinstance(t.ops[0], ast.Is) and isinstance(t.left, ast.Name)
                and isinstance(t.comparators[0], ast.Constant) and t.comparators[0].value is None
                and env.get(t.left.id, ("",))[0] in self.OPT):
            # `if x is None: x = <default>`: from here on x is a value
            x, a = t.left.id, s.body[0] if len(s.body) == 1 else None
            if not (s.orelse == [] and isinstance(a, ast.Assign) and len(a.targets) == 1 and isinstance(a.targets[0], ast.Name)
                    and a.targets[0].id == x):
                bad(s, "`if %s is None:` followed by something other than `%s = <default>`" % (x, x))
            oty, old = env[x]
            if oty == "optedialect":
                if not isinstance(a.value, ast.Name) or a.value.id in env:
                    bad(s, "default dialect that is not a module-level name")
                dflt = self.dialect_rec(a, a.value.id)
            else:
                self.nohoist += 1
                dflt = self.ex(a.value, env)
                self.nohoist -= 1
                if dflt[0] != self.OPT[oty]:
                    bad(s, "default of type %s for %s" % (show(dflt[0]), x))
                dflt = dflt[1]
            cn, env = self.bind_local(a.targets[0], x, self.OPT[oty], env, t)
            return ("let", cn, "(match %s with Some h0 => h0 | None => %s end)" % (old, dflt), self.block(rest, env, k, after))
        if (not neg and isinstance(t, ast.Compare) and len(t.ops) == 1 and isinstance(t.ops[0], ast.Is) and isinstance(t.left, ast.Name)
                and isinstance(t.comparators[0], ast.Constant) and t.comparators[0].value is None
                and env.get(t.left.id, ("",))[0] == "darg"):
            # `if x is None` on a `darg`: the three kinds of Model/Eui.v darg; in the DRec arm x is the record, in the DBad arm x is
            # an object for which `hasattr(x, 'word_size') and hasattr(x, 'word_fmt')` is false and nothing else is known
            x, arms = t.left.id, []
            cn = self.coqname(s, x + "_rec")
            for kind, names, ty in (("DNone", [], ("none", None)), ("DRec", [cn], ("edialect", cn)), ("DBad", [], ("dbad", None))):
                aenv = dict(env)
                aenv[x] = ty
                arms.append((kind, names, self.block((s.body if kind == "DNone" else s.orelse) + rest, aenv, k, after)))
            return ("omatch", env[x][1], arms)
        if (isinstance(t, ast.BoolOp) and isinstance(t.op, ast.And) and len(t.values) == 2 and "hasattr" not in env
                and not self.mod.toplevel("hasattr") and all(
                    isinstance(c, ast.Call) and dotted(c.func) == "hasattr" and len(c.args) == 2 and not c.keywords
                    and isinstance(c.args[0], ast.Name) and isinstance(c.args[1], ast.Constant) for c in t.values)
                and len({c.args[0].id for c in t.values}) == 1 and {c.args[1].value for c in t.values} == {"word_size", "word_fmt"}
                and env.get(t.values[0].args[0].id, ("",))[0] in ("edialect", "dbad")):
            yes = (env[t.values[0].args[0].id][0] == "edialect") != neg
            return self.block((s.body if yes else s.orelse) + rest, env, k, after)
        if isinstance(t, ast.Name) and env.get(t.id, ("",))[0] == "optgroups":
            # `if x:` / `if not x:` on None-or-groups: in the true branch x is the groups (a tuple of text, or the one group's text)
            x, cn = t.id, self.coqname(s, t.id + "_g")
            tenv = dict(env)
            tenv[x] = (("list", Cell("str")), cn)
            yes, no = (s.orelse, s.body) if neg else (s.body, s.orelse)
            a_ir = self.block(yes + rest, tenv, k, after)
            return ("omatch", env[x][1], [("Some", [cn], ("if", "(py_optgroups_truthy (Some %s))" % cn, a_ir, self.block(no + rest, env, k, after))),
                                          ("None", [], self.block(no + rest, env, k, after))])
        if (isinstance(t, ast.Call) and dotted(t.func) == "_is_int" and "_is_int" not in env
                and self.mod.imports.get("_is_int") == "netaddr.compat._is_int" and compat_lambda_isinstance("_is_int")):
            if len(t.args) != 1 or t.keywords or not isinstance(t.args[0], ast.Name) or env.get(t.args[0].id, ("",))[0] not in ("str", "int", "eui"):
                bad(s, "_is_int test on something whose type does not decide it")
            yes = (env[t.args[0].id][0] == "int") != neg
            return self.block((s.body if yes else s.orelse) + rest, env, k, after)
        return Fn.if_(self, s, rest, env, k, after)

    OPTLIST = {"optintlist": "int", "optbilist": "bi"}

    def as_bi(self, node, env):
        """an int or bytes expression as a bytes-or-int value"""
        ty, t = self.ex(node, env)
        if ty not in ("int", "str", "bi"):
            bad(node, "%s where bytes or an int is expected" % show(ty))
        return t if ty == "bi" else "(%s %s)" % ("BiI" if ty == "int" else "BiB", t)

    def expr_stmt(self, s, env, go):
        v = s.value
        if (isinstance(v, ast.Call) and isinstance(v.func, ast.Attribute) and v.func.attr == "append" and isinstance(v.func.value, ast.Name)
                and is_list(env.get(v.func.value.id, ("",))[0]) and env[v.func.value.id][0][1].find().t == "bi" and len(v.args) == 1
                and not v.keywords):
            l = v.func.value.id                              # l.append(e) on a list of bytes-or-int values
            lty, lt = env[l]
            t = self.as_bi(v.args[0], env)
            pre = self.take_pre()
            cn, env = self.bind_local(s, l, lty, env)
            return self.wrap(pre, ("let", cn, "(%s ++ [%s])" % (lt, t), go(env)))
        return Fn.expr_stmt(self, s, env, go)

    def opt_narrow(self, s, x, env, some_stmts, none_ir):
        """match x with Some l => <some_stmts with x : list> | None => none_ir"""
        cn = self.coqname(s, x + "_l")
        senv = dict(env)
        senv[x] = (("list", Cell(self.OPTLIST[env[x][0]])), cn)
        return ("omatch", env[x][1], [("Some", [cn], some_stmts(senv)), ("None", [], none_ir)])

    def block_opt(self, stmts, env, k, after):
        """statements on a local declared optintlist: `x.append(e)` (AttributeError on None; afterwards x is a list) and
        `if x is not None:` (x is a list in the body)"""
        s = stmts[0]
        rest = list(stmts[1:])
        if (isinstance(s, ast.Expr) and isinstance(s.value, ast.Call) and isinstance(s.value.func, ast.Attribute) and s.value.func.attr == "append"
                and isinstance(s.value.func.value, ast.Name) and env.get(s.value.func.value.id, ("",))[0] in self.OPTLIST):
            x = s.value.func.value.id
            return self.opt_narrow(s, x, env, lambda e: self.block([s] + rest, e, k, after), ("raise", "AttributeError"))
        if isinstance(s, ast.If):
            t = s.test
            if (isinstance(t, ast.Compare) and len(t.ops) == 1 and isinstance(t.ops[0], (ast.Is, ast.IsNot)) and isinstance(t.left, ast.Name)
                    and isinstance(t.comparators[0], ast.Constant) and t.comparators[0].value is None
                    and env.get(t.left.id, ("",))[0] in self.OPTLIST):
                some, none = (s.body, s.orelse) if isinstance(t.ops[0], ast.IsNot) else (s.orelse, s.body)
                return self.opt_narrow(s, t.left.id, env, lambda e: self.block(some + rest, e, k, after), self.block(none + rest, env, k, after))
        return None

    ISINST = {("int", "slice"): False, ("int", "EUI"): False, ("str", "EUI"): False, ("str", "slice"): False,
              ("eui", "EUI"): True, ("eui", "slice"): False}

    def isinstance_(self, s, t, neg, rest, env, k, after):
        if (len(t.args) == 2 and not t.keywords and isinstance(t.args[0], ast.Name) and isinstance(t.args[1], ast.Name)
                and (env.get(t.args[0].id, ("",))[0], t.args[1].id) in self.ISINST and t.args[1].id not in env
                and (t.args[1].id in self.mod.classes or not self.mod.toplevel(t.args[1].id))):
            # isinstance(x, C) decided by the declared type of x (C: a class of this module, or the builtin `slice`)
            yes = self.ISINST[(env[t.args[0].id][0], t.args[1].id)] != neg
            return self.block((s.body if yes else s.orelse) + rest, env, k, after)
        if (len(t.args) == 2 and not t.keywords and isinstance(t.args[1], ast.Name) and t.args[1].id == "tuple" and "tuple" not in env
                and not self.mod.toplevel("tuple")):
            snap, pre0 = self.snapshot(), list(self.pre)
            ty, g = self.ex(t.args[0], env)
            if is_list(ty) and ty[1].find().t == "str":
                # isinstance(g, tuple) for the groups of a match: a tuple unless the pattern has exactly one group
                c = "(py_is_tuple %s)" % g
                return self.if_cond(s, "(negb %s)" % c if neg else c, rest, env, k, after)
            self.restore(snap)
            self.pre = pre0
        return Fn.isinstance_(self, s, t, neg, rest, env, k, after)


def srcf_class_attr(t, cls, attr, node, depth=0):
    """the constant bound to `attr` in the body of class `cls` of t's module or, failing that, of its bases (in order)"""
    c = t.mod.classes.get(cls)
    if c is None or depth > 8:
        bad(node, "class %s is not defined in %s" % (cls, t.fn), t.fn)
    binds = [st for st in c.body for n in ast.walk(st) if isinstance(n, ast.Name) and n.id == attr and isinstance(n.ctx, ast.Store)]
    if binds:
        if len(binds) != 1 or not isinstance(binds[0], ast.Assign) or len(binds[0].targets) != 1:
            bad(binds[-1], "%s.%s is not bound by one plain assignment" % (cls, attr), t.fn)
        return binds[0].value
    for b in c.bases:
        if dotted(b) != "object":
            return srcf_class_attr(t, dotted(b), attr, node, depth + 1)
    bad(node, "class %s has no attribute %s" % (cls, attr), t.fn)


def srcf_dialect_rec_const(t, name, node):
    """the Gallina constant for the dialect class that the module-level name `name` of t's file stands for (the class itself,
    or a name bound once to it): the record of its word_size, num_words (int constant expressions, evaluated per class body),
    word_sep, word_fmt (string literals), looked up through the bases"""
    cn = t.mangle(None, name) + "_rec"
    if cn not in t.consts:
        cls, line = name, None
        if name not in t.mod.classes:
            ds = [a for a in t.mod.tree.body for n in ast.walk(a) if isinstance(n, ast.Name) and n.id == name and isinstance(n.ctx, ast.Store)]
            if (len(ds) != 1 or not isinstance(ds[0], ast.Assign) or len(ds[0].targets) != 1 or not isinstance(ds[0].value, ast.Name)
                    or ds[0].value.id not in t.mod.classes or t.mod.imports.get(name)):
                bad(node, "%s is not a class of %s nor bound once, at top level, to one" % (name, t.fn), t.fn)
            cls, line = ds[0].value.id, ds[0].lineno
        elif sum(1 for st in t.mod.tree.body for n in ([st] if isinstance(st, (ast.FunctionDef, ast.ClassDef)) else ast.walk(st))
                 if (isinstance(n, (ast.FunctionDef, ast.ClassDef)) and n.name == name)
                 or (isinstance(n, ast.Name) and n.id == name and isinstance(n.ctx, ast.Store))) != 1:
            bad(node, "%s is bound more than once" % name, t.fn)
        CURFILE.append(t.fn)
        try:
            ints = t.class_ints(cls)
            strs = []
            for a in ("word_sep", "word_fmt"):
                v = srcf_class_attr(t, cls, a, node)
                if not (isinstance(v, ast.Constant) and isinstance(v.value, str) and all(32 <= ord(c) < 127 for c in v.value)):
                    bad(v, "%s.%s is not a printable string literal" % (cls, a))
                strs.append('"%s"%%string' % v.value.replace('"', '""'))
        finally:
            CURFILE.pop()
        if "word_size" not in ints or "num_words" not in ints:
            bad(node, "class %s has no constant word_size / num_words" % cls, t.fn)
        t.consts[cn] = ("(* %s: %s%s, line %d: the record (word_size, num_words, word_sep, word_fmt) of that class *)\n"
                        "Definition %s : dialect_t := mk_dialect %d %d %s %s.\n"
                        % (t.fn, name, " = " + cls if cls != name else "", line or t.mod.classes[cls].lineno, cn,
                           ints["word_size"], ints["num_words"], strs[0], strs[1]))
    return cn


def srcf_module_hook(mod):
    """a @classmethod whose first parameter `cls` is only read as `cls.<class-level constant>`: translated as a plain method of a
    receiver without state, with cls = the class itself (a subclass overriding the constant is out of scope)"""
    for c in mod.classes.values():
        for f in c.body:
            if (isinstance(f, ast.FunctionDef) and [dotted(d) for d in f.decorator_list] == ["classmethod"] and f.args.args
                    and f.args.args[0].arg == "cls" and (c.name, f.name) in SRCF_CLASSMETHODS):
                uses = [n for n in ast.walk(f) if isinstance(n, ast.Name) and n.id == "cls"]
                attr_bases = {id(n.value) for n in ast.walk(f) if isinstance(n, ast.Attribute) and isinstance(n.ctx, ast.Load)}
                if all(isinstance(n.ctx, ast.Load) and id(n) in attr_bases for n in uses):
                    f.decorator_list = []
                    f.args.args[0].arg = "self"
                    for n in uses:
                        n.id = c.name


SRCF_CLASSMETHODS = {("IAB", "split_iab_mac")}
for _u in SRCF_UNITS:
    FN_CLASS[_u[1]] = FnF
MODULE_HOOK["pysrc_euib_gen.v"] = srcf_module_hook


# ---- SRCB: text functions (netaddr/ip/glob.py, nmap.py, rfc1924.py).  A subclass, so that nothing changes for the other units.
class FnB(Fn):
    """Fn plus the constructs of the text functions (see "SRCB" at the end of the module docstring); used for UNIT_FNCLASS units"""

    def __init__(self, tr, recv, name, ptypes):
        self.nonempty, self.localfns, self.rangeloops, self.renamed, self.isgen, self.isctor, self.entered = [], {}, {}, {}, False, False, False
        Fn.__init__(self, tr, recv, name, ptypes)

    # ---- classes with STATEVARS (IPGlob): properties with setters, super() calls, constructors, slots that may be unset
    def class_properties(self):
        """{name: (getter, setter)} for the class-level `name = property(getter, setter, ..)` of the receiver class"""
        out = {}
        c = self.mod.classes.get(self.recv)
        for st in (c.body if c is not None else []):
            if (isinstance(st, ast.Assign) and len(st.targets) == 1 and isinstance(st.targets[0], ast.Name) and isinstance(st.value, ast.Call)
                    and dotted(st.value.func) == "property" and len(st.value.args) >= 2 and not any(k.arg in ("fget", "fset") for k in st.value.keywords)
                    and all(isinstance(a, ast.Name) for a in st.value.args[:2])):
                names = [a.id for a in st.value.args[:2]]
                if all(sum(isinstance(f, ast.FunctionDef) and f.name == n for f in c.body) == 1 for n in names):
                    out[st.targets[0].id] = tuple(names)
        return out

    def pre_rewrite(self, f):
        """a copy of method f in which `self.p = e` for a property p with a setter is `self.<setter>(e)`, a read of `self.p` is
        `self.<getter>()`, `super(C, self).m(a..)` is the hand-model symbol of SRCB_SUPER (assigning the state attributes it sets),
        and a read of a slot that may be unset is `__srcb_getattr(self._x)` (AttributeError when unset)"""
        import copy
        f, fn = copy.deepcopy(f), self
        props = self.class_properties()
        opt = {"self." + a for a, ty in STATEVARS[self.recv] if ty == "optstr"}
        attr = lambda name, ctx, at: ast.copy_location(ast.Attribute(value=ast.copy_location(ast.Name(id="self", ctx=ast.Load()), at), attr=name, ctx=ctx), at)

        def super_call(v):
            if (isinstance(v, ast.Call) and isinstance(v.func, ast.Attribute) and isinstance(v.func.value, ast.Call)
                    and dotted(v.func.value.func) == "super" and [dotted(a) for a in v.func.value.args] == [fn.recv, "self"]
                    and not v.func.value.keywords and not v.keywords):
                if (fn.recv, v.func.attr) not in SRCB_SUPER:
                    bad(v, "super().%s is not in the translator's table SRCB_SUPER" % v.func.attr)
                return SRCB_SUPER[(fn.recv, v.func.attr)]
            return None

        class T(ast.NodeTransformer):
            def visit_Assign(self, st):
                t = st.targets[0] if len(st.targets) == 1 else None
                if isinstance(t, ast.Attribute) and dotted(t) == "self." + t.attr and t.attr in props:
                    call = ast.Call(func=attr(props[t.attr][1], ast.Load(), st), args=[self.visit(st.value)], keywords=[])
                    return ast.copy_location(ast.Expr(value=ast.copy_location(call, st)), st)
                return self.generic_visit(st)

            def visit_Expr(self, st):
                sup = super_call(st.value)
                if sup is not None and sup[1]:
                    call = self.visit(st.value)
                    tgt = ast.Tuple(elts=[attr(a, ast.Store(), st) for a in sup[1]], ctx=ast.Store())
                    return ast.copy_location(ast.Assign(targets=[ast.copy_location(tgt, st)], value=call), st)
                return self.generic_visit(st)

            def visit_Call(self, n):
                sup = super_call(n)
                n = self.generic_visit(n)
                if sup is not None:
                    return ast.copy_location(ast.Call(func=ast.copy_location(ast.Name(id="__srcb_super_" + n.func.attr, ctx=ast.Load()), n),
                                                      args=[attr(a, ast.Load(), n) for a in sup[2]] + n.args, keywords=[]), n)
                return n

            def visit_Attribute(self, n):
                if isinstance(n.ctx, ast.Load) and dotted(n) == "self." + n.attr and n.attr in props:
                    return ast.copy_location(ast.Call(func=attr(props[n.attr][0], ast.Load(), n), args=[], keywords=[]), n)
                if isinstance(n.ctx, ast.Load) and dotted(n) in opt:
                    return ast.copy_location(ast.Call(func=ast.copy_location(ast.Name(id="__srcb_getattr", ctx=ast.Load()), n), args=[n], keywords=[]), n)
                return self.generic_visit(n)
        return ast.fix_missing_locations(T().visit(f))

    def method_mutates(self, name, seen=()):
        """as Fn.method_mutates, on the rewritten method"""
        r = self.mod.lookup(self.recv, name)
        if r is None:
            return False
        paths = {"self." + a for a, _ in STATEVARS[self.recv]}
        for n in ast.walk(self.pre_rewrite(r[1])):
            if isinstance(n, ast.Attribute) and dotted(n) in paths and not isinstance(n.ctx, ast.Load):
                return True
            if (isinstance(n, ast.Call) and isinstance(n.func, ast.Attribute) and dotted(n.func) == "self." + n.func.attr
                    and n.func.attr not in seen + (name,) and self.method_mutates(n.func.attr, seen + (name,))):
                return True
        return False

    def state_as_locals(self, f):
        self.isctor = self.pyname in SRCB_CONSTRUCTORS
        return Fn.state_as_locals(self, self.pre_rewrite(f))

    def prepare(self, f, ptypes=None):
        """a copy of f in which `*xs` with a declared list type is an ordinary last parameter (the tuple of the arguments), and
        -- for a generator function -- the items are collected: `yielded = []` first, `return yielded` last; `yield e` is read by
        expr_stmt, `for x in g: yield x` by loop"""
        import copy
        ptypes = self.ptypes0 if ptypes is None else ptypes
        f = copy.deepcopy(f)
        if f.args.vararg is not None and f.args.vararg.arg in ptypes and ptypes[f.args.vararg.arg].startswith("list ") and not f.args.kwonlyargs:
            f.args.args.append(f.args.vararg)
            f.args.vararg = None
        inner = {id(n) for d in ast.walk(f) if isinstance(d, (ast.FunctionDef, ast.Lambda)) and d is not f for n in ast.walk(d)}
        ys = [n for n in ast.walk(f) if isinstance(n, (ast.Yield, ast.YieldFrom)) and id(n) not in inner]
        if ys:
            stmts = {id(st.value) for st in ast.walk(f) if isinstance(st, ast.Expr)}
            if any(isinstance(n, ast.YieldFrom) or id(n) not in stmts or n.value is None for n in ys) or any(
                    (isinstance(n, ast.Return) and id(n) not in inner) or (isinstance(n, ast.Name) and n.id == "yielded") for n in ast.walk(f)):
                bad(f, "generator with `yield from`, a yield used as an expression, a bare yield, a return, or a name `yielded`")
            self.isgen = True
            k = 1 if (f.body and isinstance(f.body[0], ast.Expr) and isinstance(f.body[0].value, ast.Constant)
                      and isinstance(f.body[0].value.value, str)) else 0
            init = ast.Assign(targets=[ast.Name(id="yielded", ctx=ast.Store())], value=ast.List(elts=[], ctx=ast.Load()))
            ret = ast.Return(value=ast.Name(id="yielded", ctx=ast.Load()))
            ast.copy_location(init, f.body[k])
            ast.copy_location(ret, f.body[-1])
            ret.lineno = ret.end_lineno = f.end_lineno
            f.body = f.body[:k] + [init] + f.body[k:] + [ret]
            for st in ast.walk(f):                    # `yield e` -> `yielded.append(__srcb_yield(e))`: an assignment of `yielded`
                if isinstance(st, ast.Expr) and isinstance(st.value, ast.Yield) and id(st.value) not in inner:
                    y = st.value
                    st.value = ast.copy_location(ast.Call(
                        func=ast.copy_location(ast.Attribute(value=ast.copy_location(ast.Name(id="yielded", ctx=ast.Load()), y), attr="append", ctx=ast.Load()), y),
                        args=[ast.copy_location(ast.Call(func=ast.copy_location(ast.Name(id="__srcb_yield", ctx=ast.Load()), y), args=[y.value], keywords=[]), y)],
                        keywords=[]), y)
            ast.fix_missing_locations(f)
        return f

    def finish(self):
        Fn.finish(self)
        if self.isgen:
            # a generator function never raises when called: its value is the list of the outcomes of its `yield`s; an exception
            # before the first yield is the one-element list [Raise e] (py_gen_body).  No raising construct may follow a yield
            # (the items yielded before it would be lost): loops that yield are effect-free, and nothing after a yield can raise.
            acc = self.used_name("yielded")
            for L in self.loops:
                if any(cn == acc for part in (L.params if L.iswhile else L.params[0] + L.params[1]) for cn, _ in [part]) and L.outcome:
                    bad(L.node, "a loop of a generator that yields and can raise")
            self.no_effect_after_yield(self.ir, acc, False)
            self.gen_outcome, self.outcome = self.outcome, False
            self.type = unparen(coqty(self.kind, self.f))

    def used_name(self, name):
        return [cn for cn, x in self.used.items() if x == name][0]

    def no_effect_after_yield(self, ir, acc, seen):
        if seen and (ir[0] in ("raise", "bind", "next", "try", "trypass", "tryb") or (ir[0] in ("ret", "lret") and ir[1] != "@loop" and ir[3])):
            bad(self.f, "a generator that can raise after a yield (the items yielded so far would be lost)")
        if ir[0] == "join":                          # the branches come before the binding of the joined variables
            self.no_effect_after_yield(ir[2], acc, seen)
            return self.no_effect_after_yield(ir[3], acc, seen or bool(re.search(r"\b%s\b" % re.escape(acc), ir[1])))
        if ir[0] in ("let", "bind") and re.search(r"\b%s\b" % re.escape(acc), ir[1]) and not (ir[0] == "let" and ir[2] == "[]"):
            seen = True
        for sub in self.children(ir):
            self.no_effect_after_yield(sub, acc, seen)

    def text(self):
        if not self.isgen:
            return Fn.text(self)
        ps = "".join(" (%s : %s)" % (cn, unparen(coqty(ty, self.f))) for cn, ty in self.params)
        body = ("py_gen_body\n    (%s)" % self.render(self.ir, "     ", True, False)) if self.gen_outcome else self.render(self.ir, "  ", False, False)
        return "".join(L.text(self) + "\n" for L in self.loops) + "(* %s: %s (a generator: the outcomes of its yields), lines %d-%d *)\nDefinition %s %s : %s :=\n  %s.\n" % (
            self.mod.fn, self.what(), self.f.lineno, self.f.end_lineno, self.cname, ps.strip(), self.type, body)

    def coqname(self, node, name):
        if name in SRCB_RESERVED:
            if self.used.setdefault(name + "_", name) != name:
                bad(node, "identifier clash on %s_" % name)
            return name + "_"
        return Fn.coqname(self, node, name)

    def typeof(self, node, env):
        """the type of an expression, without keeping anything of its translation"""
        snap, nfn = self.snapshot(), len(self.lrets)
        try:
            r = self.rhs(node, env)
        finally:
            self.restore(snap)
            del self.lrets[nfn:]
        return r[1] if r[0] == "out" else r[0]

    @staticmethod
    def charlit(node, what="character"):
        """Coq literal of a one-character printable ASCII str constant"""
        if not (isinstance(node, ast.Constant) and isinstance(node.value, str) and len(node.value) == 1 and 32 <= ord(node.value) < 127):
            bad(node, "%s other than a one-character printable ASCII literal" % what)
        return '"%s"%%char' % node.value.replace('"', '""')

    @staticmethod
    def strlit(text):
        return '"%s"%%string' % text.replace('"', '""')

    # ---- calls of definitions of other units; IPAddress objects passed where the callee applies IPNetwork() to its argument
    def generated(self, node, recv, name, state, args):
        if recv is None and self.mod.imports.get(name) in SRCB_ADDR_AS_NET:
            args = [("net", "(py_net_of_addr %s)" % t) if ty == "addr" else (ty, t) for ty, t in args]
        t = BY_OUT.get(SRCB_IN_UNIT.get((recv, name), ""))
        if t is None or t is self.tr:
            return Fn.generated(self, node, recv, name, state, args)
        saved, self.tr = self.tr, t
        try:
            return Fn.generated(self, node, recv, name, state, args)
        finally:
            self.tr = saved

    # ---- expressions
    def rhs(self, node, env):
        r = self.rhs_b(node, env)
        if r is None:
            r = Fn.rhs(self, node, env)
        if r[0] == "out" and r[1] == "obj":          # an IPAddress object made by a translated definition: a first-class value here
            r = ("out", "addr", r[2])
        return r

    def bool_(self, node, env):
        if isinstance(node, ast.Name) and env.get(node.id, ("",))[0] == "str":
            return "(py_str_nonempty %s)" % env[node.id][1]                 # truth value of a str
        return Fn.bool_(self, node, env)

    def is_not_name(self, node, env):
        """`not s` for a str-valued name s -> s, else None"""
        if (isinstance(node, ast.UnaryOp) and isinstance(node.op, ast.Not) and isinstance(node.operand, ast.Name)
                and env.get(node.operand.id, ("",))[0] == "str"):
            return node.operand.id
        return None

    def rhs_b(self, node, env):
        if isinstance(node, ast.BoolOp):
            # as Fn.rhs, and: in `not s or B or C`, B and C are evaluated only for a non-empty s (s[0] is defined there)
            depth = len(self.nonempty)
            first = self.bool_(node.values[0], env)
            self.nohoist += 1
            rest, prev = [], node.values[0]
            try:
                for x in node.values[1:]:
                    if isinstance(node.op, ast.Or) and self.is_not_name(prev, env):
                        self.nonempty.append(self.is_not_name(prev, env))
                    rest.append(self.bool_(x, env))
                    prev = x
            finally:
                self.nohoist -= 1
                del self.nonempty[depth:]
            self.size += 1
            return ("bool", "(%s)" % (" && " if isinstance(node.op, ast.And) else " || ").join([first] + rest))
        if isinstance(node, ast.Compare) and len(node.ops) == 1:
            op, a, b = node.ops[0], node.left, node.comparators[0]
            if isinstance(op, ast.Is) and isinstance(b, ast.Constant) and b.value is True and self.typeof(a, env) == "bool":
                return ("bool", self.bool_(a, env))                          # `x is True` for a bool x
            if isinstance(op, (ast.In, ast.NotIn)):
                neg = "(negb %s)" if isinstance(op, ast.NotIn) else "%s"
                if isinstance(a, ast.Constant) and isinstance(a.value, str):
                    ty, t = self.ex(b, env)                                  # 'c' in s
                    if ty != "str":
                        bad(node, "'c' in %s" % show(ty))
                    return ("bool", neg % ("(contains_char %s %s)" % (self.charlit(a, "substring test"), t)))
                if isinstance(a, ast.Name) and env.get(a.id, ("",))[0] == "char":
                    ty, t = self.ex(b, env)                                  # c in s for a character c
                    if ty != "str":
                        bad(node, "<character> in %s" % show(ty))
                    return ("bool", neg % ("(contains_char %s %s)" % (env[a.id][1], t)))
            if (isinstance(op, (ast.Eq, ast.NotEq)) and isinstance(a, ast.Subscript) and isinstance(a.value, ast.Name)
                    and env.get(a.value.id, ("",))[0] == "str" and const_int(a.slice) == 0):
                if a.value.id not in self.nonempty:                          # s[0] == 'c'
                    bad(node, "s[0] where s is not known to be non-empty (no earlier operand `not s` of the same `or`)")
                t = "(py_str_head_is %s %s)" % (self.charlit(b), env[a.value.id][1])
                return ("bool", t if isinstance(op, ast.Eq) else "(negb %s)" % t)
        if isinstance(node, ast.BinOp) and isinstance(node.op, ast.Mod) and isinstance(node.left, ast.Constant) and isinstance(node.left.value, str):
            return self.format_(node, env)
        if isinstance(node, ast.BinOp) and isinstance(node.op, (ast.Add, ast.Mult)):
            ta, tb = self.typeof(node.left, env), self.typeof(node.right, env)
            if isinstance(node.op, ast.Add) and ta == "str" and tb == "str":
                (_, a), (_, b) = self.ex(node.left, env), self.ex(node.right, env)
                return ("str", "(String.append %s %s)" % (a, b))
            if isinstance(node.op, ast.Mult) and ta == "int" and tb == "str":
                return ("str", "(py_str_times %s %s)" % (self.int_(node.left, env), self.charlit(node.right, "repeated string")))
        if (isinstance(node, ast.Attribute) and isinstance(node.value, ast.Name) and env.get(node.value.id, ("",))[0] == "addr"
                and node.attr == "version"):
            x = env[node.value.id][1]                                        # the translated IPAddress.version
            return self.generated(node, "IPAddress", "version", "(fst %s) (width (fst %s)) (snd %s)" % (x, x, x), [])
        return None

    def format_(self, node, env):
        """'..%s..%d..' % (a, b): %s / %d of an int = its decimal text (fmt_d), %s of a str = the str"""
        parts = re.split(r"(%.)", node.left.value)
        args = list(node.right.elts) if isinstance(node.right, ast.Tuple) else [node.right]
        out = []
        for p in parts:
            if p == "%%":
                out.append(self.strlit("%"))
            elif p in ("%s", "%d"):
                if not args:
                    bad(node, "format string with more specifiers than arguments")
                ty, t = self.ex(args.pop(0), env)
                if ty == "int":
                    out.append("(fmt_d %s)" % t)
                elif ty == "str" and p == "%s":
                    out.append(t)
                else:
                    bad(node, "%s of %s" % (p, show(ty)))
            elif p.startswith("%") and len(p) == 2:
                bad(node, "format specifier %s" % p)
            elif p:
                if not all(32 <= ord(c) < 127 for c in p):
                    bad(node, "format string with non-ASCII text")
                out.append(self.strlit(p))
        if args:
            bad(node, "format string with fewer specifiers than arguments")
        term = out[-1] if out else self.strlit("")
        for x in reversed(out[:-1]):
            term = "(String.append %s %s)" % (x, term)
        return ("str", term)

    def subscript(self, node, env):
        sl = node.slice
        dicts = SRCB_DICTS.get(self.tr.out, {})
        if isinstance(node.value, ast.Name) and node.value.id in dicts and node.value.id not in env and self.mod.toplevel(node.value.id):
            kty, vty, sym = dicts[node.value.id]                             # D[k] for a regenerated module-level dict: KeyError
            ty, t = self.ex(sl, env)
            if ty != kty:
                bad(node, "%s[%s]" % (node.value.id, show(ty)))
            return ("out", vty, "(%s %s)" % (sym, t))
        if not isinstance(sl, ast.Slice):
            vty = self.typeof(node.value, env)
            if is_list(vty):                                                 # l[i]: IndexError modelled (py_index)
                ty, t = self.ex(node.value, env)
                elem = ty[1].find().t
                if elem is None:
                    bad(node, "subscript of a list whose element type is not known yet")
                return ("out", elem, "(py_index %s %s)" % (t, self.int_(sl, env)))
            if vty == "net" and const_int(sl) is not None:                   # cidr[k]: the translated IPNetwork.__getitem__ (int)
                _, t = self.ex(node.value, env)
                return self.generated(node, "IPNetwork", "__getitem__:int", "(nver %s) (width (nver %s)) (nval %s) (nplen %s)" % (t, t, t, t),
                                      [("int", "%d" % const_int(sl) if const_int(sl) >= 0 else "(%d)" % const_int(sl))])
        return Fn.subscript(self, node, env)

    def listcomp(self, node, env):
        """[e for x in xs] -> map (fun x => e) xs, or py_map_o (fun x => <e in outcome>) xs when e can raise (in order, first wins)"""
        g = node.generators
        if not (len(g) == 1 and not g[0].ifs and not g[0].is_async and isinstance(g[0].target, ast.Name) and g[0].target.id not in env):
            return Fn.listcomp(self, node, env)
        ty, t = self.listexpr(g[0].iter, env)
        elem = ty[1].find().t if is_list(ty) else None
        if elem is None:
            bad(node, "comprehension over %s" % show(ty))
        x = g[0].target.id
        if x == "_":
            cn, lenv = self.fresh(), dict(env)
            lenv["_"] = (elem, cn)
        else:
            cn, lenv = self.bind_local(g[0].target, x, elem, env, g[0].iter)
        saved, self.pre, nh, self.nohoist = self.pre, [], self.nohoist, 0
        try:
            r = self.rhs(node.elt, lenv)
            inner = self.pre
        finally:
            self.pre, self.nohoist = saved, nh
        kind = r[1] if r[0] == "out" else r[0]
        if not is_value(kind):
            bad(node, "comprehension element of kind %s" % show(kind))
        if r[0] != "out" and not inner:
            return (("list", Cell(kind)), "(map (fun %s => %s) %s)" % (cn, r[1], t))
        ir = self.wrap(inner, ("ret", kind, r[2] if r[0] == "out" else r[1], r[0] == "out"))
        return ("out", ("list", Cell(kind)), "(py_map_o (fun %s => %s) %s)" % (cn, self.render(ir, "      ", True), t))

    def call(self, node, env):
        r = self.call_b(node, env)
        return r if r is not None else Fn.call(self, node, env)

    def call_b(self, node, env):
        f = node.func
        if (isinstance(f, ast.Name) and len(node.args) == 1 and isinstance(node.args[0], ast.Starred) and not node.keywords
                and f.id not in env and self.tr.owner_of(f.id) is not None):
            r = self.rhs(node.args[0].value, env)                    # f(*g(x)): the components of g's tuple are f's arguments
            ty = r[1] if r[0] == "out" else r[0]
            if not (isinstance(ty, tuple) and ty[0] == "tup"):
                bad(node, "f(*e) for e of kind %s" % show(ty))
            hs = [self.fresh() for _ in ty[1]]
            self.hoist(node, ("bind", pattern(hs), r[2] if r[0] == "out" else "(Ok %s)" % r[1]))
            return self.generated(node, None, f.id, "", list(zip(ty[1], hs)))
        if isinstance(f, ast.Attribute) and f.attr == "split" and not node.keywords and len(node.args) in (1, 2) and not (
                isinstance(f.value, ast.Name) and f.value.id not in env):
            if len(node.args) == 2 and const_int(node.args[1]) != 1:
                bad(node, "s.split(c, n) with n other than the literal 1")
            ty, t = self.ex(f.value, env)                                    # s.split('c') / s.split('c', 1)
            if ty != "str":
                bad(node, "split() on %s" % show(ty))
            return (("list", Cell("str")), "(%s %s %s)" % ("split" if len(node.args) == 1 else "split1", self.charlit(node.args[0], "separator"), t))
        if (isinstance(f, ast.Attribute) and f.attr == "join" and isinstance(f.value, ast.Constant) and isinstance(f.value.value, str)
                and all(32 <= ord(c) < 127 for c in f.value.value) and len(node.args) == 1 and not node.keywords):
            ty, t = self.listexpr(node.args[0], env)                         # 'sep'.join(l)
            if not (is_list(ty) and ty[1].find().t == "str"):
                bad(node, "join() of %s" % show(ty))
            return ("str", "(join %s %s)" % (self.strlit(f.value.value), t))
        if self.builtin_call(node, "int", env, 1) or self.builtin_call(node, "str", env, 1):
            ty = self.typeof(node.args[0], env)
            if f.id == "int" and ty == "str":
                return ("out", "int", "(py_int_o 10 %s)" % self.ex(node.args[0], env)[1])      # int(s): ValueError
            if f.id == "int" and ty == "addr":
                x = self.ex(node.args[0], env)[1]
                return self.generated(node, "IPAddress", "__int__", "(fst %s) (width (fst %s)) (snd %s)" % (x, x, x), [])
            if f.id == "str" and ty == "int":
                return ("str", "(fmt_d %s)" % self.int_(node.args[0], env))                   # str(n) = '%d' % n
            if f.id == "str" and ty == "str":
                return self.ex(node.args[0], env)
            if f.id == "str" and ty == "addr" and self.tr.out in SRCB_ADDR_STR:
                return (SRCB_ADDR_STR[self.tr.out][0], SRCB_ADDR_STR[self.tr.out][1] % self.ex(node.args[0], env)[1])
            if f.id == "str" and ty == "addr":
                return ("out", "str", "(py_addr_str %s)" % self.ex(node.args[0], env)[1])      # str(ip): hand model (SrcPreludeGlob)
            if f.id == "str":
                bad(node, "str() of %s" % show(ty))
        if self.builtin_call(node, "any", env, 1) and isinstance(node.args[0], ast.GeneratorExp):
            g = node.args[0].generators                                      # any(<bool> for c in s) over the characters of a str
            if not (len(g) == 1 and not g[0].ifs and not g[0].is_async and isinstance(g[0].target, ast.Name) and g[0].target.id not in env):
                bad(node, "any() over something other than one plain generator with a fresh variable")
            ty, t = self.ex(g[0].iter, env)
            if ty != "str":
                bad(node, "any() over %s" % show(ty))
            cn, lenv = self.bind_local(g[0].target, g[0].target.id, "char", env, g[0].iter)
            self.nohoist += 1
            try:
                c = self.bool_(node.args[0].elt, lenv)
            finally:
                self.nohoist -= 1
            return ("bool", "(existsb (fun %s => %s) (chars %s))" % (cn, c, t))
        if isinstance(f, ast.Name) and f.id.startswith("__srcb_super_") and (self.recv, f.id[13:]) in SRCB_SUPER:
            sym, _, _, rty = SRCB_SUPER[(self.recv, f.id[13:])]              # super().m(..): the hand model of the IPRange method
            args = [self.ex(x, env) for x in node.args]
            if any(not is_value(ty) for ty, _ in args):
                bad(node, "argument of super().%s" % f.id[13:])
            term = "(%s)" % " ".join([sym] + [t for _, t in args])
            return (rty, term) if rty == "istate" else ("out", rty, term)
        if isinstance(f, ast.Name) and f.id == "__srcb_getattr" and len(node.args) == 1:
            ty, t = self.ex(node.args[0], env)                               # a slot that may be unset: AttributeError
            if ty != "optstr":
                bad(node, "read of a slot of kind %s" % show(ty))
            return ("out", "str", "(py_attr_get %s)" % t)
        if self.builtin_call(node, "ord", env, 1) and self.typeof(node.args[0], env) == "char":
            return ("int", "(code %s)" % self.ex(node.args[0], env)[1])      # ord(c)
        if self.builtin_call(node, "chr", env, 1):
            return ("out", "str", "(py_chr_o %s)" % self.int_(node.args[0], env))   # chr(i), 0 <= i < 256 (else Unsupported)
        if self.builtin_call(node, "range", env, 1) or self.builtin_call(node, "range", env, 2):
            a = [self.int_(x, env) for x in node.args]                       # range(..) consumed as a list
            return (("list", Cell("int")), "(py_zrange %s %s)" % (("0", a[0]) if len(a) == 1 else (a[0], a[1])))
        if self.builtin_call(node, "list", env, 1) and self.typeof(node.args[0], env) == "str":
            return (("list", Cell("str")), "(py_str_list %s)" % self.ex(node.args[0], env)[1])      # list(s): its characters
        if self.builtin_call(node, "set", env, 0):
            return (("set", Cell()), "[]")                                   # set(): the empty set (element type found later)
        if self.builtin_call(node, "sorted", env, 1):
            ty, t = self.ex(node.args[0], env)                               # sorted(s) for a set / list of ints: ascending
            if not ((is_set(ty) or is_list(ty)) and ty[1].find().t == "int"):
                bad(node, "sorted() of %s without a key" % show(ty))
            return (("list", Cell("int")), "(py_sorted_asc %s)" % t)
        if isinstance(f, ast.Name) and f.id == "__srcb_range" and not node.keywords and len(node.args) in (1, 2):
            a = [self.int_(x, env) for x in node.args]                       # (made by loop() from range(..) / _iter_range(..))
            return (("list", Cell("int")), "(py_zrange %s %s)" % (("0", a[0]) if len(a) == 1 else (a[0], a[1])))
        if isinstance(f, ast.Name) and f.id in self.localfns and f.id not in env:
            if node.keywords or node.lineno <= self.localfns[f.id][1]:
                bad(node, "call of the local function %s with keywords, or before its definition" % f.id)
            return self.generated(node, None, self.localfns[f.id][0], "", [self.ex(x, env) for x in node.args])
        if (isinstance(f, ast.Name) and f.id in SRCB_CTOR_KIND and f.id not in env and not node.keywords
                and self.mod.imports.get(f.id) == "netaddr.ip." + f.id):
            tys = [self.typeof(x, env) for x in node.args]
            if f.id == "IPAddress" and tys == ["addr"]:
                return self.ex(node.args[0], env)                            # IPAddress(ip): the copy constructor = the same value
            key = (f.id,) + tuple(("%d" % const_int(x)) if (ty == "int" and const_int(x) is not None) else ty for x, ty in zip(node.args, tys))
            sym = SRCB_CTOR.get(self.tr.out, {}).get(key)
            if sym is not None:                                              # a parser on text: hand-model symbol / platform parameter
                return ("out", SRCB_CTOR_KIND[f.id], "(%s)" % " ".join([sym] + [self.ex(x, env)[1] for x, kk in zip(node.args, key[1:]) if not kk.isdigit()]))
            if f.id == "IPRange" or "str" in tys or "addr" in tys or self.tr.out in SRCB_CTOR and key[1:] == ("int",):
                bad(node, "%s(%s)" % (f.id, ", ".join(show(x) for x in tys)))
        if (isinstance(f, ast.Name) and f.id == "_iter_next" and f.id not in env and len(node.args) == 1 and not node.keywords
                and self.mod.imports.get("_iter_next") == "netaddr.compat._iter_next" and isinstance(node.args[0], ast.Call)):
            ty, t = self.ex(node.args[0], env)                               # next() of a generator made right here (and dropped)
            if not (is_list(ty) and ty[1].find().t == "oaddr"):
                bad(node, "_iter_next of %s" % show(ty))
            return ("out", "addr", "(py_gen_next %s)" % t)
        return None

    # ---- statements
    def assign(self, s, env, go):
        tgt = s.targets[0] if isinstance(s, ast.Assign) and len(s.targets) == 1 else None
        if (isinstance(tgt, ast.Name) and self.recv in STATEVARS and ("optstr" in [ty for a, ty in STATEVARS[self.recv] if "self" + a == tgt.id])
                and self.typeof(s.value, env) == "str"):
            ty, t = self.ex(s.value, env)                                    # self._x = <str>: the slot is set
            pre = self.take_pre()
            cn, env = self.bind_local(tgt, tgt.id, "optstr", env, s.value)
            return self.wrap(pre, ("let", cn, "(Some %s)" % t, go(env)))
        if isinstance(tgt, ast.Tuple) and len(tgt.elts) == 2 and all(isinstance(x, ast.Name) for x in tgt.elts):
            ty = self.typeof(s.value, env)
            if is_list(ty):                                                  # a, b = <list>: ValueError unless it has two elements
                r = self.rhs(s.value, env)
                pre = self.take_pre()
                elem = (r[1] if r[0] == "out" else r[0])[1].find().t
                if elem is None:
                    bad(s, "unpacking of a list whose element type is not known")
                names = []
                for x in tgt.elts:
                    if x.id == "_":
                        env = dict(env)
                        env.pop("_", None)
                        names.append("_")
                        continue
                    cn, env = self.bind_local(x, x.id, elem, env, s.value)
                    names.append(cn)
                if r[0] == "out":
                    h = self.fresh()
                    return self.wrap(pre, ("bind", h, r[2], ("bind", pattern(names), "(py_unpack2 %s)" % h, go(env))))
                return self.wrap(pre, ("bind", pattern(names), "(py_unpack2 %s)" % r[1], go(env)))
        return Fn.assign(self, s, env, go)

    @staticmethod
    def yield_value(st):
        """e of the statement `yield e` (rewritten by prepare to `yielded.append(__srcb_yield(e))`), else None"""
        v = st.value if isinstance(st, ast.Expr) else None
        if (isinstance(v, ast.Call) and dotted(v.func) == "yielded.append" and len(v.args) == 1 and isinstance(v.args[0], ast.Call)
                and dotted(v.args[0].func) == "__srcb_yield"):
            return v.args[0].args[0]
        return None

    def expr_stmt(self, s, env, go):
        v = s.value
        if (isinstance(v, ast.Call) and isinstance(v.func, ast.Attribute) and v.func.attr == "add" and isinstance(v.func.value, ast.Name)
                and is_set(env.get(v.func.value.id, ("",))[0]) and len(v.args) == 1 and not v.keywords):
            l = v.func.value.id                                          # s.add(e): nothing happens when an equal element is present
            lty, lt = env[l]
            ty, t = self.ex(v.args[0], env)
            unify(s, ("set", Cell(ty)), lty, "added element")
            pre = self.take_pre()
            cn, env = self.bind_local(s, l, lty, env)
            if self.tainted(v.args[0], env):
                env["@taint"] = env["@taint"] | {l}
            return self.wrap(pre, ("let", cn, "(py_set_add %s %s %s)" % (self.elem_eqb(s, lty), lt, t), go(env)))
        if self.isgen and self.yield_value(s) is not None:               # yield e: the OUTCOME of e goes to the end of `yielded`
            saved, self.pre = self.pre, []
            try:
                r = self.rhs(self.yield_value(s), env)
                inner = self.pre
            finally:
                self.pre = saved
            kind = r[1] if r[0] == "out" else r[0]
            if kind != "addr":
                bad(s, "yield of %s (only IPAddress objects)" % show(kind))
            ir = self.wrap(inner, ("ret", kind, r[2] if r[0] == "out" else r[1], r[0] == "out"))
            t = r[2] if (r[0] == "out" and not inner) else "(%s)" % self.render(ir, "      ", True)
            lty, lt = env["yielded"]
            unify(s, ("list", Cell("oaddr")), lty, "yielded item")
            cn, env = self.bind_local(s, "yielded", lty, env)
            return ("let", cn, "(%s ++ [%s])" % (lt, t), go(env))
        if isinstance(v, ast.Call) and dotted(v.func) == "_iter_next":
            r = self.rhs(v, env)                                             # _iter_next(g) for its exception only
            pre = self.take_pre()
            return self.wrap(pre, ("bind", "_", r[2], go(env)))
        return Fn.expr_stmt(self, s, env, go)

    def block(self, stmts, env, k, after):
        if not self.entered:
            self.entered = True
            if self.isctor:          # a constructor: no incoming state; slots that may be unset are None, the others unbound
                env = dict(env)
                for a, ty in STATEVARS[self.recv]:
                    if ty == "optstr":
                        env["self" + a] = (ty, "None")
                    else:
                        env.pop("self" + a)
                self.statevars = []
        if stmts and isinstance(stmts[0], ast.FunctionDef):
            return self.localdef(stmts[0], list(stmts[1:]), env, k, after)
        if stmts and isinstance(stmts[0], ast.Try) and self.is_try_b(stmts[0]):
            return self.try_b(stmts[0], list(stmts[1:]), env, k, after)
        return Fn.block(self, stmts, env, k, after)

    def localdef(self, s, rest, env, k, after):
        """`def g(..): ..` directly in the body of f, with no free variable that is a local of f: the definition
        src_f_g (entry "f.g" of the unit's table gives its parameter types); g(..) below it calls that definition"""
        key = "%s.%s" % (self.name, s.name)
        if s not in self.f.body or s.decorator_list or not any(w[:2] == (None, key) for w in self.tr.specs):
            bad(s, "local function %s: not directly in the body of %s, decorated, or without an entry %s in the unit's table" % (s.name, self.name, key))
        outer = {a.arg for a in self.f.args.args} | {n.id for st in self.f.body if st is not s for n in ast.walk(st)
                                                      if isinstance(n, ast.Name) and isinstance(n.ctx, ast.Store)}
        if any(isinstance(n, ast.Name) and n.id in outer | {s.name} and isinstance(n.ctx, ast.Load) for n in ast.walk(s)) or s.name in outer or any(
                isinstance(n, (ast.Global, ast.Nonlocal, ast.Lambda, ast.Yield, ast.YieldFrom)) or (isinstance(n, ast.FunctionDef) and n is not s)
                for n in ast.walk(s)):
            bad(s, "local function %s reads a local of %s (a closure), is rebound, or is not a plain function" % (s.name, self.name))
        self.localfns[s.name] = (key, s.end_lineno)
        return self.block(rest, env, k, after)

    @staticmethod
    def exc_names(h):
        t = h.type
        names = [t] if isinstance(t, ast.Name) else list(t.elts) if isinstance(t, ast.Tuple) else []
        return [n.id for n in names if isinstance(n, ast.Name)] if names and all(isinstance(n, ast.Name) for n in names) else None

    def is_try_b(self, s):
        """try: body / except E | (E1, E2, ..): handler -- every form the base class does not read"""
        if len(s.handlers) != 1 or s.orelse or s.finalbody or self.exc_names(s.handlers[0]) is None:
            return False
        h = s.handlers[0]
        if any(e not in EXN for e in self.exc_names(h)):
            return False
        if isinstance(h.type, ast.Name) and len(h.body) == 1 and isinstance(h.body[0], ast.Raise):
            return False                                       # base: py_except
        if isinstance(h.type, ast.Name) and len(h.body) == 1 and isinstance(h.body[0], ast.Pass):
            return False                                       # base: py_except_pass
        return True

    @staticmethod
    def cannot_raise(st):
        """`l.append(<name or literal>)` / `x = <name or literal>`"""
        simple = lambda e: isinstance(e, (ast.Name, ast.Constant))
        if isinstance(st, ast.Expr) and isinstance(st.value, ast.Call) and isinstance(st.value.func, ast.Attribute):
            c = st.value
            return c.func.attr == "append" and isinstance(c.func.value, ast.Name) and len(c.args) == 1 and not c.keywords and simple(c.args[0])
        return isinstance(st, ast.Assign) and len(st.targets) == 1 and isinstance(st.targets[0], ast.Name) and simple(st.value)

    def try_b(self, s, rest, env, k, after):
        """try: body / except (E1, ..): handler  ->  do h <- py_try [E1; ..] (body) (handler); match h with inl r => return r |
        inr <variables> => rest end  (without the match when neither returns).  Body and handler answer inl <returned value> or
        inr <the variables assigned in them and read later>.  The handler starts from the variables as they were at `try`: a
        variable the body assigns is unbound in the handler unless every statement of the body from its first assignment on is
        one that cannot raise (cannot_raise)."""
        h = s.handlers[0]
        excs = self.exc_names(h)
        if env["@mut"] or any(e in env or (self.mod.toplevel(e) and e not in self.mod.imports) for e in excs):
            bad(s, "try after a state assignment, or a rebound exception class")
        if any(isinstance(n, (ast.Break, ast.Continue)) for st in s.body + h.body for n in ast.walk(st)):
            bad(s, "break / continue inside try")
        if h.name and any(isinstance(n, ast.Name) and n.id == h.name for st in h.body + rest + after for n in ast.walk(st)):
            bad(s, "exception variable %s is used" % h.name)
        has_ret = any(isinstance(n, ast.Return) for st in s.body + h.body for n in ast.walk(st))
        if has_ret and env["@break"] is not None and not env["@lret"]:
            bad(s, "return inside a nested loop")
        later = loaded_names(rest + after)
        names = in_order([(i, 0, x) for i, x in enumerate(assigned_names(s.body) + assigned_names(h.body))])
        unsafe = set()
        for i, st in enumerate(s.body):
            if not all(self.cannot_raise(x) for x in s.body[i:]):
                unsafe |= set(assigned_names([st]))
        nl = len(self.lrets)
        ends = []

        def end(e):
            ends.append(e)
            return ("jret", e)

        def no(e):
            bad(s, "break / continue inside try")
        benv = dict(env)
        if has_ret:
            benv["@break"], benv["@continue"], benv["@lret"] = no, no, True      # `return` inside: answers inl
        body = self.block(s.body, benv, end, rest + after)
        henv = {key: val for key, val in benv.items() if key not in unsafe}
        hand = self.block(h.body, henv, end, rest + after)
        exported = [x for x in names if x in later and ends and all(x in e and is_value(e[x][0]) for e in ends)]
        for key, val in env.items():                # compile-time bindings must come out unchanged, or be dead
            if not key.startswith("@") and key not in exported and not is_value(val[0]) and any(e.get(key) != val for e in ends):
                if key in later:
                    bad(s, "%s is rebound inside try to something that is no Coq value and read afterwards" % key)
        env = dict(env)
        for x in names:
            env.pop(x, None)
        cns = []
        for x in exported:
            for e in ends[1:]:
                unify(s, e[x][0], ends[0][x][0], "ends of the try statement")
            cn = self.coqname(s, x)
            cns.append(cn)
            env[x] = (ends[0][x][0], cn)
        env["@taint"] = frozenset().union(env["@taint"], *[e["@taint"] for e in ends]) - (set(names) - set(exported))

        def close(ir):
            if ir[0] == "jret" and isinstance(ir[1], dict):
                t = tuple_term([ir[1][x][1] for x in exported])
                return ("jret", "(inr %s)" % t if has_ret else t)
            return tuple(close(x) if isinstance(x, tuple) and x and isinstance(x[0], str) else
                         [(kd, ns, close(sub)) for kd, ns, sub in x] if isinstance(x, list) else x for x in ir)
        hn = rn = retleaf = None
        if has_ret:
            kinds = self.lrets[nl:]
            if not kinds:
                bad(s, "try with a return that is never reached")
            for kd in kinds[1:]:
                unify(s, kd, kinds[0], "return values")
            hn, rn = self.fresh(), self.fresh()
            retleaf = self.leaf(env, kinds[0], rn)
        return ("tryb", tuple(excs), close(body), close(hand), hn, rn, pattern(cns), retleaf, self.block(rest, env, k, after))

    def if_(self, s, rest, env, k, after):
        """as Fn.if_; `if A and B: X else: Y` whose B can raise is read as `if A: (if B: X else: Y) else: Y` (same for `or`)"""
        snap, nl = self.snapshot(), len(self.lrets)
        try:
            return Fn.if_(self, s, rest, env, k, after)
        except Untranslatable as e:
            if "can raise under and/or" not in str(e) or not isinstance(s.test, ast.BoolOp):
                raise
        self.restore(snap)
        del self.lrets[nl:]
        a, b = s.test.values[0], (s.test.values[1] if len(s.test.values) == 2 else ast.copy_location(
            ast.BoolOp(op=s.test.op, values=s.test.values[1:]), s.test))
        mk = lambda test, body, orelse: ast.copy_location(ast.If(test=test, body=body, orelse=orelse), s)
        if isinstance(s.test.op, ast.And):
            s2 = mk(a, [mk(b, s.body, s.orelse)], s.orelse)
        else:
            s2 = mk(a, s.body, [mk(b, s.body, s.orelse)])
        return self.if_(s2, rest, env, k, after)

    @staticmethod
    def read_first(stmts, x):
        """(may x be read before it is written when the statements run in this order?, is x written on every path through them?)
        -- a conservative reading of structured code: loops may run zero times, try / with / unknown statements write nothing
        and read whatever they mention, break / continue count as a read"""
        loads = lambda n: any(isinstance(m, ast.Name) and m.id == x and isinstance(m.ctx, ast.Load) for m in ast.walk(n)) if n is not None else False
        stores = lambda n: any(isinstance(m, ast.Name) and m.id == x and isinstance(m.ctx, ast.Store) for m in ast.walk(n))
        for st in stmts:
            if isinstance(st, (ast.Assign, ast.AugAssign, ast.Expr, ast.Pass)):
                if loads(st) or (isinstance(st, ast.AugAssign) and stores(st.target)):
                    return True, False
                if isinstance(st, ast.Assign) and all(isinstance(t, (ast.Name, ast.Tuple)) for t in st.targets) and stores(st):
                    return False, True
            elif isinstance(st, (ast.Return, ast.Raise)):
                return loads(st), True
            elif isinstance(st, ast.If):
                if loads(st.test):
                    return True, False
                (r1, w1), (r2, w2) = FnB.read_first(st.body, x), FnB.read_first(st.orelse, x)
                if r1 or r2:
                    return True, False
                if w1 and w2:
                    return False, True
            elif isinstance(st, (ast.For, ast.While)):
                if loads(st.iter if isinstance(st, ast.For) else st.test) or st.orelse:
                    return True, False
                if not (isinstance(st, ast.For) and stores(st.target)) and FnB.read_first(st.body, x)[0]:
                    return True, False
            elif loads(st) or isinstance(st, (ast.Break, ast.Continue)) or any(isinstance(m, (ast.Break, ast.Continue)) for m in ast.walk(st)):
                return True, False
        return False, False

    def loop(self, s, rest, env, k, after):
        """as Fn.loop; `for i in range(n)` / `range(a, b)` / `_iter_range(a, b)` whose variable IS read runs over the list
        py_zrange a b (the bounds are evaluated once, before the loop).  A loop variable that is mentioned after the loop but
        is dead there (read_first: always written before it is read again) is renamed inside the loop (x -> x_for)."""
        tg = s.target.elts[1] if (isinstance(s, ast.For) and isinstance(s.target, ast.Tuple) and len(s.target.elts) == 2) else getattr(s, "target", None)
        if (isinstance(s, ast.For) and isinstance(tg, ast.Name) and ("rebound", id(s)) not in self.renamed and any(
                isinstance(n, ast.Name) and n.id == tg.id and isinstance(n.ctx, ast.Store) for st in s.body for n in ast.walk(st))):
            # the loop variable x is assigned in the body: the loop runs over x_for, the body starts with `x = x_for`
            x = tg.id
            if id(s) not in self.renamed:
                if x in env or any(isinstance(n, ast.Name) and n.id == x + "_for" for n in ast.walk(self.f)) or self.read_first(
                        [st for st in rest + after if st is not s], x)[0]:
                    bad(s, "loop variable %s is rebound in the body and bound before / read after the loop" % x)
                import copy
                s2 = copy.copy(s)
                s2.target = copy.deepcopy(s.target)
                t2 = s2.target.elts[1] if isinstance(s2.target, ast.Tuple) else s2.target
                t2.id = x + "_for"
                first = ast.copy_location(ast.Assign(targets=[ast.copy_location(ast.Name(id=x, ctx=ast.Store()), tg)],
                                                     value=ast.copy_location(ast.Name(id=x + "_for", ctx=ast.Load()), tg)), s.body[0])
                s2.body = [first] + list(s.body)
                self.loopno[id(s2)] = self.loopno[id(s)]
                self.renamed[id(s)] = s2
                self.renamed[("rebound", id(s2))] = True
            return self.loop(self.renamed[id(s)], rest, env, k, after)
        if (self.isgen and isinstance(s, ast.For) and isinstance(s.target, ast.Name) and not s.orelse and len(s.body) == 1
                and isinstance(self.yield_value(s.body[0]), ast.Name)
                and self.yield_value(s.body[0]).id == s.target.id and s.target.id not in env and "yielded" in env
                and not any(isinstance(n, ast.Name) and n.id == s.target.id and isinstance(n.ctx, ast.Load)
                            and not any(n is m for m in ast.walk(s)) for st in rest + after for n in ast.walk(st))):
            ty, t = self.ex(s.iter, env)                     # for x in g: yield x -- every outcome of g goes to the end of `yielded`
            pre = self.take_pre()
            if ty == "net":
                t = "(py_iter_net %s)" % t                   # iterating an IPNetwork (IPListMixin.__iter__): hand model
            elif not (is_list(ty) and ty[1].find().t == "oaddr"):
                bad(s, "`for x in e: yield x` over %s" % show(ty))
            lty, lt = env["yielded"]
            unify(s, ("list", Cell("oaddr")), lty, "yielded item")
            cn, env = self.bind_local(s, "yielded", lty, env)
            return self.wrap(pre, ("let", cn, "(%s ++ %s)" % (lt, t), self.block(rest, env, k, after)))
        if (isinstance(s, ast.For) and isinstance(s.target, ast.Name) and id(s) not in self.renamed.values() and any(
                isinstance(n, ast.Name) and n.id == s.target.id and isinstance(n.ctx, ast.Load)
                and not any(n is m for st in s.body for m in ast.walk(st)) for st in rest + after if st is not s for n in ast.walk(st))):
            x = s.target.id
            if id(s) not in self.renamed:
                if self.read_first([st for st in rest + after], x)[0] or any(
                        isinstance(n, ast.Name) and n.id == x + "_for" for n in ast.walk(self.f)):
                    bad(s, "loop variable %s read after the loop" % x)
                import copy
                s2 = copy.deepcopy(s)
                for a, b in zip(ast.walk(s), ast.walk(s2)):
                    if isinstance(a, (ast.For, ast.While)):
                        self.loopno[id(b)] = self.loopno[id(a)]
                    if isinstance(b, ast.Name) and b.id == x:
                        b.id = x + "_for"
                self.renamed[id(s)] = s2
                self.renamed[("made", id(s2))] = id(s2)
            return self.loop(self.renamed[id(s)], rest, env, k, after)
        if isinstance(s, ast.For) and isinstance(s.target, ast.Name) and isinstance(s.iter, ast.Call) and isinstance(s.iter.func, ast.Name):
            fname = s.iter.func.id
            isrange = (fname == "range" and self.builtin_call(s.iter, "range", env, len(s.iter.args))) or (
                fname == "_iter_range" and fname not in env and not s.iter.keywords
                and self.mod.imports.get("_iter_range") == "netaddr.compat._iter_range" and compat_ok("_iter_range"))
            if isrange and len(s.iter.args) in (1, 2) and s.target.id in loaded_names(s.body):
                if id(s) not in self.rangeloops:
                    it = ast.copy_location(ast.Call(func=ast.copy_location(ast.Name(id="__srcb_range", ctx=ast.Load()), s.iter),
                                                    args=s.iter.args, keywords=[]), s.iter)
                    s2 = ast.copy_location(ast.For(target=s.target, iter=it, body=s.body, orelse=s.orelse), s)
                    s2.end_lineno = s.end_lineno
                    self.loopno[id(s2)] = self.loopno[id(s)]
                    self.rangeloops[id(s)] = s2
                return Fn.loop(self, self.rangeloops[id(s)], rest, env, k, after)
        return Fn.loop(self, s, rest, env, k, after)

    # ---- IR
    @staticmethod
    def children(ir):
        if ir[0] == "tryb":
            return [ir[2], ir[3]] + ([ir[7]] if ir[7] is not None else []) + [ir[8]]
        return Fn.children(ir)

    def effects(self, ir):
        return ir[0] == "tryb" or Fn.effects(self, ir)

    def render(self, ir, ind, oc, optional=False):
        if ir[0] != "tryb":
            return Fn.render(self, ir, ind, oc, optional)
        _, excs, body, hand, hn, rn, pat, retleaf, rest = ir
        i2 = ind + "  "
        head = "py_try [%s]\n%s  (%s)\n%s  (%s);\n" % ("; ".join(excs), ind, self.render(body, ind + "   ", True, False), ind,
                                                   self.render(hand, ind + "   ", True, False))
        if retleaf is None:
            return "do %s <- %s%s%s" % (pat, head, ind, self.render(rest, ind, oc, optional))
        sub = lambda x: self.render(x, i2, oc, optional) if x[0] in ("ret", "raise", "jret", "lret") else "(" + self.render(x, i2 + " ", oc, optional) + ")"
        return "do %s <- %smatch %s with\n%s| inl %s => %s\n%s| inr %s =>\n%s%s\n%send" % (
            hn, head + ind, hn, ind, rn, self.render(retleaf, i2, oc, optional), ind, pat, i2, sub(rest), ind)


UNIT_FNCLASS.update({u[1]: FnB for u in SRCB_UNITS})


BY_MODULE = {}      # dotted module name -> the first translator made for its file (filled by generate())

# ---- SRCD: the units of CTOR_FN_UNITS are read by the subclass CtorFn of Fn (harness/gen/pysrc_ctor.py); every other unit by Fn
_is_value_base_srcd = is_value


def is_value(t):
    return t in ("mod", "optstr", "inttuple") or _is_value_base_srcd(t)


COQTY.update({"mod": "Z", "optstr": "(option string)", "inttuple": "(list Z)"})
RESERVED |= set("be backend py_catch_all py_str_to_int py_int_to_str contains_char exn_eqb split join split1 py_split1_pair Platform Fallback "
                "py_expand_partial_address py_prefix_to_netmask py_netmask_to_prefix py_prefix_to_hostmask py_hostmask_to_prefix "
                "py_list_head fmt_d append length".split())


_function_base = Module.function


def _function(self, name):
    """`outer.inner`: the def `inner` nested directly in the module-level function `outer` -- bound once there, undecorated, and
    closure-free (it reads no parameter or local of `outer`), so that it can be translated like a module-level function"""
    if "." not in name:
        return _function_base(self, name)
    outer, inner = name.split(".", 1)
    f = _function_base(self, outer)
    ds = [n for n in ast.walk(f) if n is not f and ((isinstance(n, (ast.FunctionDef, ast.ClassDef, ast.Lambda)) and getattr(n, "name", "") == inner)
                                                     or (isinstance(n, ast.Name) and n.id == inner and isinstance(n.ctx, ast.Store)))]
    g = ds[0] if len(ds) == 1 else None
    if not isinstance(g, ast.FunctionDef) or g not in f.body or g.decorator_list:
        bad(g or f, "%s is not bound exactly once, by a plain def directly inside %s" % (inner, outer))
    mine = {a.arg for a in g.args.args} | {n.id for n in ast.walk(g) if isinstance(n, ast.Name) and isinstance(n.ctx, ast.Store)}
    theirs = {a.arg for a in f.args.args} | {n.id for st in f.body if st is not g for n in ast.walk(st)
                                             if isinstance(n, ast.Name) and isinstance(n.ctx, ast.Store)} | {inner}
    if any(isinstance(n, ast.Name) and isinstance(n.ctx, ast.Load) and n.id in theirs - mine for n in ast.walk(g)) or any(
            isinstance(n, (ast.Global, ast.Nonlocal)) for n in ast.walk(g)):
        bad(g, "inner function %s reads a name of %s (a closure)" % (inner, outer))
    return g


Module.function = _function
_lookup_base = Module.lookup


def _lookup(self, cls, name):
    """`attr.setter`: the def decorated `@attr.setter` in the body of class `cls` (the only one), as a plain method"""
    if not name.endswith(".setter"):
        return _lookup_base(self, cls, name)
    c, attr = self.classes.get(cls), name[:-7]
    fs = [f for f in (c.body if c else []) if isinstance(f, ast.FunctionDef) and f.name == attr
          and [dotted(d) for d in f.decorator_list] == [name]]
    if len(fs) != 1 or _lookup_base(self, cls, attr) is None or not _lookup_base(self, cls, attr)[2] or _lookup_base(self, cls, attr)[0] != cls:
        bad(fs[-1] if fs else c, "%s.%s is not exactly one def decorated @%s next to its property" % (cls, attr, name))
    return cls, fs[0], False


Module.lookup = _lookup


def fn_class(out):
    if out in CTOR_FN_UNITS:
        from harness.gen import pysrc_ctor
        return pysrc_ctor.CtorFn
    return FN_CLASS.get(out) or UNIT_FNCLASS.get(out, Fn)      # (SRCE, SRCF: FN_CLASS; SRCB: UNIT_FNCLASS) a unit may use a subclass of Fn


class Translator:
    """all translated definitions of one source file (`out` None: netaddr/ip/__init__.py with WHITELIST + FUNCS)"""

    def __init__(self, fn=IPFILE, out=None, prefix="", specs=None, parent=None):
        self.fn, self.out, self.prefix, self.parent = fn, out, prefix, parent
        self.specs = WHITELIST + FUNCS if specs is None else specs
        self.done, self.order, self.failed, self.active, self.consts = {}, [], {}, [], {}
        BY_MODULE.setdefault(re.sub(r"(/__init__)?\.py$", "", fn).replace("/", "."), self)
        BY_OUT[out] = self
        BY_FILE.setdefault(fn, []).append(self)            # (SRCF) every translator of a file, in unit order
        CURFILE.append(fn)
        try:
            self.mod = Module(fn)
            MODULE_HOOK.get(out, lambda m: None)(self.mod)      # (SRCF) a unit may normalise the parsed module (see srcf_module_hook)
        finally:
            CURFILE.pop()

    def mangle(self, recv, name):
        return mangle(recv, name, self.prefix)

    def const_eval(self, node, ns, depth=0):
        """value of an int constant expression over literals, the names of `ns` (a class body being evaluated) and the module's
        top-level int constants"""
        if const_int(node) is not None:
            return const_int(node)
        if isinstance(node, ast.Name) and node.id in ns:
            return ns[node.id]
        if isinstance(node, ast.Name) and depth < 8:
            ds = [a for a in self.mod.tree.body if any(isinstance(n, ast.Name) and n.id == node.id and isinstance(n.ctx, ast.Store)
                                                       for n in ast.walk(a))]
            if len(ds) == 1 and isinstance(ds[0], ast.Assign) and len(ds[0].targets) == 1 and isinstance(ds[0].targets[0], ast.Name):
                return self.const_eval(ds[0].value, {}, depth + 1)
        if isinstance(node, ast.BinOp) and type(node.op) in (ast.Add, ast.Sub, ast.Mult, ast.FloorDiv, ast.Pow):
            a, b = self.const_eval(node.left, ns, depth), self.const_eval(node.right, ns, depth)
            if isinstance(node.op, (ast.FloorDiv,)) and b == 0 or isinstance(node.op, ast.Pow) and b < 0:
                bad(node, "constant expression")
            return {ast.Add: a + b, ast.Sub: a - b, ast.Mult: a * b, ast.FloorDiv: a // b if b else 0, ast.Pow: a ** max(b, 0)}[type(node.op)]
        bad(node, "constant expression %s" % type(node).__name__)

    def class_ints(self, cls, depth=0):
        """the int-valued class attributes of `cls` as Python sees them: each class body is evaluated in its own namespace
        (falling back to the module constants), attributes are looked up through the bases"""
        c = self.mod.classes.get(cls)
        if c is None or depth > 8:
            bad(c, "class %s is not defined in this module" % cls)
        out = {}
        for b in reversed(c.bases):
            out.update(self.class_ints(dotted(b), depth + 1) if dotted(b) != "object" else {})
        ns = {}
        for st in c.body:
            if isinstance(st, ast.Assign) and len(st.targets) == 1 and isinstance(st.targets[0], ast.Name):
                try:
                    ns[st.targets[0].id] = self.const_eval(st.value, ns)
                except Untranslatable:
                    ns.pop(st.targets[0].id, None)
                    out.pop(st.targets[0].id, None)
            elif not (isinstance(st, ast.Expr) and isinstance(st.value, ast.Constant)) and not isinstance(st, (ast.Pass, ast.FunctionDef)):
                bad(st, "statement in the body of class %s that the translator does not read" % cls)
        out.update(ns)
        return out

    def dialect_const(self, name, node):
        """the Gallina constant for the module-level name `name`, which must be bound once, to a dialect class of this module:
        the pair (word_size, num_words) of that class"""
        cn = self.mangle(None, name)
        if cn not in self.consts:
            ds = [a for a in self.mod.tree.body for n in ast.walk(a) if isinstance(n, ast.Name) and n.id == name and isinstance(n.ctx, ast.Store)]
            if (len(ds) != 1 or not isinstance(ds[0], ast.Assign) or len(ds[0].targets) != 1 or not isinstance(ds[0].value, ast.Name)
                    or ds[0].value.id not in self.mod.classes or self.mod.imports.get(name)):
                bad(node, "%s is not bound exactly once, at top level, to a class of this module" % name)
            attrs = self.class_ints(ds[0].value.id)
            if "word_size" not in attrs or "num_words" not in attrs:
                bad(node, "class %s has no constant word_size / num_words" % ds[0].value.id)
            self.consts[cn] = ("(* %s: %s = %s, line %d: (word_size, num_words) of that class *)\nDefinition %s : Z * Z := (%d, %d).\n"
                               % (self.fn, name, ds[0].value.id, ds[0].lineno, cn, attrs["word_size"], attrs["num_words"]))
        return cn

    def charset(self, name, node):
        """the characters of the module-level `name = frozenset([...])` (bound once; one-character strings, and ints -- the byte
        values that iterating over a bytes object yields -- which never equal a character of a str and are left out)"""
        ds = [a for a in self.mod.tree.body for n in ast.walk(a) if isinstance(n, ast.Name) and n.id == name and isinstance(n.ctx, ast.Store)]
        v = ds[0].value if len(ds) == 1 and isinstance(ds[0], ast.Assign) and len(ds[0].targets) == 1 else None
        if not (isinstance(v, ast.Call) and dotted(v.func) == "frozenset" and not self.mod.toplevel("frozenset") and len(v.args) == 1
                and not v.keywords and isinstance(v.args[0], (ast.List, ast.Tuple, ast.Set)) and not self.mod.imports.get(name)
                and all(isinstance(x, ast.Constant) and (isinstance(x.value, int) and not isinstance(x.value, bool) or (
                    isinstance(x.value, str) and len(x.value) == 1 and 32 <= ord(x.value) < 127 and x.value != '"'))
                        for x in v.args[0].elts)):
            bad(node, "%s is not bound once, at top level, to frozenset([<characters and ints>])" % name)
        return ['"%s"%%char' % x.value for x in v.args[0].elts if isinstance(x.value, str)]

    def class_tuple(self, node):
        """the int literals of the class-level tuple C.ATTR (bound once in the body of C, to a tuple of int literals)"""
        c = self.mod.classes[node.value.id]
        ds = [a for a in c.body for n in ast.walk(a) if isinstance(n, ast.Name) and n.id == node.attr and isinstance(n.ctx, ast.Store)]
        if (len(ds) != 1 or not isinstance(ds[0], ast.Assign) or len(ds[0].targets) != 1 or not isinstance(ds[0].value, ast.Tuple)
                or any(const_int(x) is None for x in ds[0].value.elts)):
            bad(node, "%s.%s is not bound once, to a tuple of int literals" % (node.value.id, node.attr))
        if any(isinstance(f, ast.FunctionDef) and any(isinstance(n, ast.Attribute) and n.attr == node.attr and not isinstance(n.ctx, ast.Load)
                                                      for n in ast.walk(f)) for k in self.mod.classes.values() for f in k.body):
            bad(node, "%s.%s is assigned somewhere" % (node.value.id, node.attr))
        return [literal(x, self.mod.text) if isinstance(x, ast.Constant) else "(%d)" % const_int(x) for x in ds[0].value.elts]

    def owner_of_samefile(self, name):
        return self.parent.owner_of(name) if (self.parent is not None and self.parent.fn == self.fn) else None

    def owner_of(self, name):
        """(translator, name there) of the module-level function called `name` in this file: this translator, or -- for
        `from <module> import f [as name]` -- the first translator of that module's file; None if nobody lists the function"""
        if any(k[0] is None and k[1] == name for k in self.specs) and not self.mod.imports.get(name):
            return self, name
        imp = self.mod.imports.get(name)
        if imp:
            module, _, real = imp.rpartition(".")
            t = BY_MODULE.get(module)
            if t is not None and t is not self and any(k[0] is None and k[1] == real for k in t.specs) and not t.mod.imports.get(real):
                return t, real
            return None
        return self.owner_of_samefile(name) or self.owner_of_sibling(name)

    def owner_of_sibling(self, name):
        """(SRCF) (translator, name) of an earlier unit over the same file that lists the module-level function `name`"""
        for t in BY_FILE.get(self.fn, []):
            if t is not self and any(k[0] is None and k[1] == name for k in t.specs) and not t.mod.imports.get(name):
                return t, name
        return None

    def modof(self, cls):
        """the parsed module that defines class `cls` as seen from this file (this one, or netaddr/ip/__init__.py for an import)"""
        if cls not in self.mod.classes and self.parent is not None and self.mod.imports.get(cls) == "netaddr.ip." + cls:
            return self.parent.mod
        return self.mod

    def get(self, recv, name, node=None):
        key = (recv, name)
        if recv is None and self.owner_of(name) is not None and self.owner_of(name)[0] is not self:
            t, real = self.owner_of(name)
            return t.get(None, real, node)
        if recv is not None and self.modof(recv) is not self.mod:
            return self.parent.get(recv, name, node)
        if self.parent is not None and self.parent.fn == self.fn and not any(w[:2] == key for w in self.specs):
            for o in UNIT_SEES.get(self.out, ()):           # .. or an earlier unit's that this unit is declared to see
                if o in BY_OUT and BY_OUT[o].fn == self.fn and any(w[:2] == key for w in BY_OUT[o].specs):
                    return BY_OUT[o].get(recv, name, node)
            return self.parent.get(recv, name, node)        # a second unit over the same file: everything else is the first one's
        if recv is not None and not any(w[:2] == key for w in self.specs):      # (SRCF) a method listed by another unit over the same file
            for t in BY_FILE.get(self.fn, []):
                if t is not self and any(w[:2] == key for w in t.specs):
                    return t.get(recv, name, node)
        if key in self.failed:
            bad(node, "depends on untranslatable %s" % self.mangle(*key))
        if key in self.active:
            bad(node, "recursive use of %s" % self.mangle(*key))
        if key not in self.done:
            spec = [w for w in self.specs if w[:2] == key]
            if not spec:
                bad(node, "use of %s, which is not in the translator's whitelist" % self.mangle(*key))
            self.active.append(key)
            CURFILE.append(self.fn)
            SUBSCRIPT_STORE_IN_ORDER.append(fn_class(self.out).__name__ == "FnF")
            PURE_EXTRA.append(SRCB_PURE_METHODS if fn_class(self.out).__name__ == "FnB" else ())
            try:
                d = fn_class(self.out)(self, recv, name, spec[0][2])
                d.body_text = d.text()          # also resolves every list type: fail here, scoped to this definition
            except Untranslatable as e:
                self.failed[key] = str(e)
                raise
            except Exception as e:      # a translator bug on an unforeseen AST shape: fail closed, scoped to this method
                self.failed[key] = "%s:?: internal translator error %s: %s" % (self.fn, type(e).__name__, e)
                raise Untranslatable(self.failed[key])
            finally:
                self.active.pop()
                CURFILE.pop()
                SUBSCRIPT_STORE_IN_ORDER.pop()
                PURE_EXTRA.pop()
            self.done[key] = d
            self.order.append(key)
        return self.done[key]

    def run(self):
        for recv, name, _ in self.specs:
            assert (recv, name) not in SKIP or self.out
            try:
                self.get(recv, name)
            except Untranslatable:
                pass
        return self


# ---- SRCA: netaddr/ip/sets.py (IPSet) ---------------------------------------------------------------------------------
# Active only for the units of SETS_FILES; the text generated for every other unit is unchanged.  The hooks are installed
# by wrapping methods of Fn / Module / Translator below (`SRCA hooks`), so that no existing method body is edited.
# Readings (also in the module docstring, paragraph SRCA):
# * An IPSet object is its only attribute `_cidrs`; `_cidrs` (a dict with IPNetwork keys, all values True) is the
#   insertion-ordered list of its keys.  Types `ipset` (the object) and `dict` (its _cidrs), both `list net` in Coq; `x._cidrs`
#   of an ipset x is x.  The state of a method is `self_cidrs` (STATEVARS).
# * sets_prepare() rewrites a function of sets.py, before translation, into statements the translator knows:
#     d[k] = True -> d = __sets_dict_set(d, k);  del d[k] -> d = __sets_dict_del(d, k);  d.update(e) -> d = __sets_dict_update(d, e)
#     (d: self._cidrs, <name>._cidrs or a name);  for x in <..>._cidrs -> for x in __sets_dict_keys(<..>._cidrs) (the keys in
#     insertion order; the body may change that dict only directly before `return` / `break`);  for a, b in e: body ->
#     for sets_itemN in e: a, b = sets_itemN; body;  x.m(..) as a statement, for a local IPSet x and a method m that assigns the
#     state -> x = x.m(..);  `assert` statements are dropped (they do not run under -O; the hand model has none).
#   The names __sets_* are not Python names of the file; sets_rhs() turns them into the prelude symbols py_dict_*.
# BY_OUT (output file -> its Translator) is defined above and filled by Translator.__init__


def _sets_load(node):
    import copy
    n = copy.deepcopy(node)
    for x in ast.walk(n):
        if hasattr(x, "ctx"):
            x.ctx = ast.Load()
    return n


def _sets_store(node):
    n = _sets_load(node)
    n.ctx = ast.Store()
    return n


def _is_cidrs(node):
    return isinstance(node, ast.Attribute) and node.attr == "_cidrs" and isinstance(node.value, ast.Name)


def _sets_pseudo(name, args, at):
    return ast.copy_location(ast.Call(func=ast.copy_location(ast.Name(id=name, ctx=ast.Load()), at), args=args, keywords=[]), at)


def _sets_mutates(st, d, fn):
    """does statement st (not looking into nested blocks) change the dict written `d` (dotted path)?"""
    if isinstance(st, (ast.Assign, ast.AugAssign)):
        tgts = st.targets if isinstance(st, ast.Assign) else [st.target]
        return any(dotted(t.value if isinstance(t, ast.Subscript) else t) == d for t in tgts)
    if isinstance(st, ast.Delete):
        return any(isinstance(t, ast.Subscript) and dotted(t.value) == d for t in st.targets)
    if isinstance(st, ast.Expr) and isinstance(st.value, ast.Call) and isinstance(st.value.func, ast.Attribute):
        f = st.value.func
        if dotted(f.value) == d:
            return True
        if fn is not None and d == "self._cidrs" and dotted(f) == "self." + f.attr and fn.method_mutates(f.attr):
            return True
    return False


def _sets_check_iteration(loop, d, fn):
    """a `for` over the keys of dict d: d may be changed in the body only directly before `return` / `break`"""
    def deep(st):
        return _sets_mutates(st, d, fn) or any(_sets_mutates(n, d, fn) for n in ast.walk(st) if isinstance(n, ast.stmt))

    def walk(stmts):
        stmts = [st for st in stmts if not isinstance(st, ast.Assert)]
        for i, st in enumerate(stmts):
            if not deep(st):
                continue
            # after a change of d the block must leave the loop: it ends with return / break and has no continue after the change
            if isinstance(stmts[-1], (ast.Return, ast.Break)) and not any(isinstance(n, ast.Continue) for x in stmts[i + 1:] for n in ast.walk(x)):
                continue
            if isinstance(st, ast.If):                  # .. or each branch of an `if` leaves by itself
                walk(st.body)
                walk(st.orelse)
                continue
            bad(st, "the dict %s is changed while a loop runs over its keys" % d)
    walk(loop.body)


class SetsPrepare(ast.NodeTransformer):
    def __init__(self, fn):
        self.fn, self.n = fn, 0

    @staticmethod
    def place(t):
        return isinstance(t, ast.Name) or _is_cidrs(t)

    @staticmethod
    def inline_search_loop(f):
        """X = None [; Y = None] / for v in D: if c: X = ..; Y = ..; break / if X is not None: body   (the last statements of f)
        -> for v in D: if c: X = ..; Y = ..; body; return      (X, Y used nowhere else; loop variables of `body` renamed apart)"""
        b = f.body
        if len(b) < 3 or not (isinstance(b[-1], ast.If) and not b[-1].orelse and isinstance(b[-2], ast.For) and not b[-2].orelse):
            return
        t, loop = b[-1].test, b[-2]
        if not (isinstance(t, ast.Compare) and len(t.ops) == 1 and isinstance(t.ops[0], ast.IsNot) and isinstance(t.left, ast.Name)
                and isinstance(t.comparators[0], ast.Constant) and t.comparators[0].value is None):
            return
        k = len(b) - 2
        names = []
        while k > 0 and (isinstance(b[k - 1], ast.Assign) and len(b[k - 1].targets) == 1 and isinstance(b[k - 1].targets[0], ast.Name)
                         and isinstance(b[k - 1].value, ast.Constant) and b[k - 1].value.value is None):
            k -= 1
            names.append(b[k].targets[0].id)
        inner = loop.body[0] if len(loop.body) == 1 else None
        if (t.left.id not in names or not (isinstance(inner, ast.If) and not inner.orelse and inner.body and isinstance(inner.body[-1], ast.Break))
                or any(isinstance(n, (ast.Break, ast.Continue, ast.Return)) for st in inner.body[:-1] + b[-1].body for n in ast.walk(st))):
            return
        elsewhere = [n for st in b[:k] + [inner.test, loop.iter] for n in ast.walk(st) if isinstance(n, ast.Name) and n.id in names]
        stores = [n for st in inner.body for n in ast.walk(st) if isinstance(n, ast.Name) and n.id in names and isinstance(n.ctx, ast.Store)]
        if elsewhere or {n.id for n in stores} != set(names) or not isinstance(loop.target, ast.Name):
            return
        moved = b[-1].body
        for st in moved:                            # loop variables of the moved statements that clash with the search loop's
            for n in ast.walk(st):
                if isinstance(n, ast.For) and isinstance(n.target, ast.Name) and n.target.id == loop.target.id:
                    new = n.target.id + "_2"
                    for m in ast.walk(n):
                        if isinstance(m, ast.Name) and m.id == loop.target.id:
                            m.id = new
        inner.body = inner.body[:-1] + moved + [ast.copy_location(ast.Return(value=None), inner.body[-1])]
        f.body = b[:k] + [loop]

    def visit_FunctionDef(self, f):
        self.inline_search_loop(f)
        f = self.generic_visit(f)
        for n in ast.walk(f):
            for name in ("body", "orelse"):
                if isinstance(getattr(n, name, None), list) and not getattr(n, name) and (name == "body"):
                    setattr(n, name, [ast.copy_location(ast.Pass(), n)])
        return f

    def visit_Return(self, st):
        st = self.generic_visit(st)
        v = st.value            # return <dict>.popitem()[0]: the dict loses its last key, which is returned
        if (isinstance(v, ast.Subscript) and const_int(v.slice) == 0 and isinstance(v.value, ast.Call) and isinstance(v.value.func, ast.Attribute)
                and v.value.func.attr == "popitem" and not v.value.args and not v.value.keywords and dotted(v.value.func.value) == "self._cidrs"):
            d = v.value.func.value
            tgt = ast.Tuple(elts=[_sets_store(d), ast.Name(id="sets_popped", ctx=ast.Store())], ctx=ast.Store())
            a = ast.copy_location(ast.Assign(targets=[tgt], value=_sets_pseudo("__sets_dict_popitem", [_sets_load(d)], st)), st)
            return [a, ast.copy_location(ast.Return(value=ast.Name(id="sets_popped", ctx=ast.Load())), st)]
        return st

    def visit_Assign(self, st):
        st = self.generic_visit(st)
        t = st.targets[0] if len(st.targets) == 1 else None
        v = st.value
        if (isinstance(v, ast.Call) and isinstance(v.func, ast.Name) and v.func.id in SETS_OUTPARAM and isinstance(t, ast.Name)
                and not v.keywords and len(v.args) > SETS_OUTPARAM[v.func.id] and isinstance(v.args[SETS_OUTPARAM[v.func.id]], ast.Name)):
            out = v.args[SETS_OUTPARAM[v.func.id]].id          # x = f(.., l) for an out-parameter l: l, x = f(.., l)
            st.targets = [ast.copy_location(ast.Tuple(elts=[ast.Name(id=out, ctx=ast.Store()), t], ctx=ast.Store()), t)]
            return st
        if isinstance(t, ast.Subscript):
            if not (self.place(t.value) and isinstance(st.value, ast.Constant) and st.value.value is True
                    and not isinstance(t.slice, ast.Slice)):
                bad(st, "subscript assignment other than <dict>[k] = True")
            return ast.copy_location(ast.Assign(targets=[_sets_store(t.value)],
                                                value=_sets_pseudo("__sets_dict_set", [_sets_load(t.value), t.slice], st)), st)
        return st

    def visit_Delete(self, st):
        out = []
        for t in st.targets:
            if not (isinstance(t, ast.Subscript) and self.place(t.value) and not isinstance(t.slice, ast.Slice)):
                bad(st, "del other than del <dict>[k]")
            out.append(ast.copy_location(ast.Assign(targets=[_sets_store(t.value)],
                                                    value=_sets_pseudo("__sets_dict_del", [_sets_load(t.value), t.slice], st)), st))
        return out

    def visit_Assert(self, st):
        return None

    def visit_Compare(self, n):
        n = self.generic_visit(n)
        if (len(n.ops) == 1 and isinstance(n.ops[0], (ast.In, ast.NotIn)) and isinstance(n.comparators[0], ast.Name)
                and n.comparators[0].id == "self" and self.fn is not None and self.fn.recv == "IPSet"):
            at = n.comparators[0]       # x in self: the receiver, as the IPSet whose dict is self._cidrs
            cid = ast.copy_location(ast.Attribute(value=ast.copy_location(ast.Name(id="self", ctx=ast.Load()), at), attr="_cidrs", ctx=ast.Load()), at)
            n.comparators = [_sets_pseudo("__sets_self", [cid], at)]
        return n

    def visit_Call(self, n):
        n = self.generic_visit(n)
        if dotted(n.func) == "self.__class__" and not n.args and not n.keywords and self.fn is not None and self.fn.recv == "IPSet":
            n.func = ast.copy_location(ast.Name(id="IPSet", ctx=ast.Load()), n.func)      # the receiver class is IPSet
        return n

    def visit_Expr(self, st):
        v = st.value
        if isinstance(v, ast.Call) and isinstance(v.func, ast.Attribute) and not v.keywords:
            f = v.func
            if f.attr == "update" and _is_cidrs(f.value) and len(v.args) == 1:
                return ast.copy_location(ast.Assign(
                    targets=[_sets_store(f.value)], value=_sets_pseudo("__sets_dict_update", [_sets_load(f.value), v.args[0]], st)), st)
            if (isinstance(f.value, ast.Name) and f.value.id != "self" and self.fn is not None and self.fn.recv == "IPSet"
                    and self.fn.mod.lookup("IPSet", f.attr) and self.fn.method_mutates(f.attr)):
                v.state_call = True         # x.m(..) for a local IPSet x and a state-assigning m: x = x.m(..)
                return ast.copy_location(ast.Assign(targets=[_sets_store(f.value)], value=v), st)
        return self.generic_visit(st)

    def visit_For(self, st):
        if _is_cidrs(st.iter):
            _sets_check_iteration(st, dotted(st.iter), self.fn)
        st = self.generic_visit(st)
        if _is_cidrs(st.iter):
            st.iter = _sets_pseudo("__sets_dict_keys", [st.iter], st.iter)
        if isinstance(st.target, ast.Tuple):
            self.n += 1
            name = "sets_item%d" % self.n
            unpack = ast.copy_location(ast.Assign(targets=[st.target], value=ast.copy_location(ast.Name(id=name, ctx=ast.Load()), st.target)), st.target)
            st.target = ast.copy_location(ast.Name(id=name, ctx=ast.Store()), st.target)
            st.body = [unpack] + st.body
        return st


class SetsGenerator(ast.NodeTransformer):
    """a generator function whose callers consume it at once (`for .. in g(..)`), read as the function that returns the list of
    what it yields: sets_yield = [] first, `yield e` -> sets_yield.append(e), `return` / the end -> return sets_yield"""
    def visit_Expr(self, st):
        if isinstance(st.value, ast.Yield):
            if st.value.value is None:
                bad(st, "yield without a value")
            call = ast.Call(func=ast.Attribute(value=ast.Name(id="sets_yield", ctx=ast.Load()), attr="append", ctx=ast.Load()),
                            args=[st.value.value], keywords=[])
            return ast.copy_location(ast.Expr(value=call), st)
        return st

    def visit_Return(self, st):
        if st.value is not None:
            bad(st, "return with a value in a generator")
        return ast.copy_location(ast.Return(value=ast.Name(id="sets_yield", ctx=ast.Load())), st)

    def visit_Yield(self, n):
        bad(n, "yield used as an expression")

    def visit_YieldFrom(self, n):
        bad(n, "yield from")


class SetsOutParam(ast.NodeTransformer):
    def __init__(self, name):
        self.name = name

    def visit_Return(self, st):
        if st.value is None:
            bad(st, "return without a value in a function with an out-parameter")
        st.value = ast.copy_location(ast.Tuple(elts=[ast.Name(id=self.name, ctx=ast.Load()), st.value], ctx=ast.Load()), st)
        return st


def sets_prepare(f, fn, mod=None):
    import copy
    f = copy.deepcopy(f)
    if any(isinstance(n, (ast.Yield, ast.YieldFrom)) for n in ast.walk(f)):
        if any(isinstance(n, (ast.FunctionDef, ast.Lambda)) and n is not f for n in ast.walk(f)):
            bad(f, "generator with a nested function")
        f = SetsGenerator().visit(f)
        first = 1 if (f.body and isinstance(f.body[0], ast.Expr) and isinstance(f.body[0].value, ast.Constant)) else 0
        init = ast.copy_location(ast.Assign(targets=[ast.Name(id="sets_yield", ctx=ast.Store())], value=ast.List(elts=[], ctx=ast.Load())), f.body[first])
        last = ast.copy_location(ast.Return(value=ast.Name(id="sets_yield", ctx=ast.Load())), f.body[-1])
        last.lineno = last.end_lineno = f.end_lineno
        f.body = f.body[:first] + [init] + f.body[first:] + [last]
    gens = {g.name for g in (mod.tree.body if mod is not None else []) if isinstance(g, ast.FunctionDef)
            and any(isinstance(n, (ast.Yield, ast.YieldFrom)) for n in ast.walk(g))}
    whole = {id(n.iter) for n in ast.walk(f) if isinstance(n, ast.For) and not n.orelse
             and not any(isinstance(x, (ast.Break, ast.Return)) for st in n.body for x in ast.walk(st))}
    for n in ast.walk(f):
        if isinstance(n, ast.Call) and isinstance(n.func, ast.Name) and n.func.id in gens and id(n) not in whole:
            bad(n, "the generator %s is not consumed at once by a `for` without break / return" % n.func.id)
    if f.name in SETS_OUTPARAM and fn is None:
        a = f.args.args[SETS_OUTPARAM[f.name]].arg
        if not isinstance(f.body[-1], ast.Return):
            bad(f, "function with an out-parameter that may fall off its end")
        f = SetsOutParam(a).visit(f)
    return ast.fix_missing_locations(SetsPrepare(fn).visit(f))


def _sets_on(self):
    return self.tr.out in SETS_FILES


def sets_ipset_var(self, node, env):
    return isinstance(node, ast.Name) and node.id in env and env[node.id][0] == "ipset"


def sets_rhs(self, node, env):
    """the expression forms of the sets units; None: not one of them (the general translation applies)"""
    if isinstance(node, ast.Dict) and not node.keys:
        return ("dict", "[]")
    if isinstance(node, ast.Dict) and len(node.keys) == 1 and isinstance(node.values[0], ast.Constant) and node.values[0].value is True:
        (tk, kt) = self.ex(node.keys[0], env)           # {k: True}
        if tk != "net":
            bad(node, "dict literal with a key of kind %s" % show(tk))
        return ("dict", "(py_dict_set [] %s)" % kt)
    if isinstance(node, ast.Attribute) and sets_ipset_var(self, node.value, env):
        t = env[node.value.id][1]
        if node.attr == "_cidrs":
            return ("dict", t)
        r = self.mod.lookup("IPSet", node.attr)
        if r and r[2]:
            return self.generated(node, "IPSet", node.attr, t, [])
        bad(node, "attribute %s of an IPSet" % node.attr)
    if isinstance(node, ast.Call):
        return sets_call(self, node, env)
    if isinstance(node, ast.ListComp) and len(node.generators) == 1:
        g = node.generators[0]                              # [e for x in xs] with a pure e: map (fun x => e) xs
        if g.ifs or g.is_async or not isinstance(g.target, ast.Name) or g.target.id in env:
            bad(node, "list comprehension other than [e for x in xs] with a fresh x")
        (tl, l) = self.ex(g.iter, env)
        if tl == "dict":                                    # over a dict: its keys
            tl = ("list", Cell("net"))
        elem = tl[1].find().t if is_list(tl) else None
        if elem is None:
            bad(node, "comprehension over %s" % show(tl))
        cn, lenv = self.bind_local(g.target, g.target.id, elem, env, g.iter)
        self.nohoist += 1
        (te, e) = self.ex(node.elt, lenv)
        self.nohoist -= 1
        if not is_value(te):
            bad(node, "comprehension element of kind %s" % show(te))
        return (("list", Cell(te)), "(map (fun %s => %s) %s)" % (cn, e, l))
    if isinstance(node, ast.Tuple) and node.elts and isinstance(node.ctx, ast.Load):
        items = [self.ex(x, env) for x in node.elts]        # a tuple of values; an IPAddress component is its pair (version, value)
        if any(ty != "obj" and not is_value(ty) for ty, _ in items):
            bad(node, "tuple component of kind %s" % [show(ty) for ty, _ in items if ty != "obj" and not is_value(ty)][0])
        return (("tup", tuple(ty for ty, _ in items)), tuple_term([t[3] if ty == "obj" else t for ty, t in items]))
    if isinstance(node, ast.Subscript):
        snap, pre0 = self.snapshot(), list(self.pre)
        ty, t = self.ex(node.value, env)
        sl = node.slice
        if is_list(ty) and isinstance(sl, ast.Slice):
            k = const_int(sl.lower) if sl.lower is not None else None
            if k is not None and k >= 0 and sl.upper is None and sl.step is None:
                return (("list", ty[1]), "(py_list_from %d %s)" % (k, t))            # l[k:]
        elif is_list(ty):
            elem = ty[1].find().t
            if elem is None:
                bad(node, "index into a list whose element type is not known yet")
            return ("out", elem, "(py_index %s %s)" % (t, self.int_(sl, env)))      # l[i]: IndexError outside
        elif ty == "iprange" and not isinstance(sl, ast.Slice):
            t0 = BY_OUT.get("pysrc_listlike_gen.v")                                  # IPRange.__getitem__ for an int index
            if t0 is None:
                bad(node, "IPRange.__getitem__ is not translated")
            d = t0.get("IPRange", "__getitem__:int", node)
            self.depfns.append(d)
            a, b, c = self.fresh(), self.fresh(), self.fresh()
            return ("out", d.kind, "(let '(%s, %s, %s) := %s in %s %s (width %s) %s %s %s)" % (a, b, c, t, d.cname, a, a, b, c, self.int_(sl, env)))
        elif ty == "net" and not isinstance(sl, ast.Slice):
            t0 = BY_OUT.get("pysrc_listlike_gen.v")                                  # IPNetwork.__getitem__ for an int index
            if t0 is None:
                bad(node, "IPNetwork.__getitem__ is not translated")
            d = t0.get("IPNetwork", "__getitem__:int", node)
            self.depfns.append(d)
            return ("out", d.kind, "(%s (nver %s) (width (nver %s)) (nval %s) (nplen %s) %s)" % (d.cname, t, t, t, t, self.int_(sl, env)))
        self.restore(snap)
        self.pre = pre0
        return None
    if isinstance(node, ast.Compare) and len(node.ops) == 1:
        op = node.ops[0]
        snap, pre0 = self.snapshot(), list(self.pre)
        if isinstance(op, (ast.In, ast.NotIn)):
            (ta, a), (tb, b) = self.ex(node.left, env), self.ex(node.comparators[0], env)
            if tb in ("dict", "ipset", "net"):
                if ta != "net":
                    bad(node, "membership test of %s" % show(ta))
                if tb == "dict":
                    r = ("bool", "(py_dict_mem %s %s)" % (b, a))                     # key lookup
                elif tb == "ipset":
                    r = self.generated(node, "IPSet", "__contains__", b, [("net", a)])
                else:
                    r = self.generated(node, "IPNetwork", "__contains__", "(nver %s) (width (nver %s)) (nval %s) (nplen %s)" % (b, b, b, b),
                                       [("operand", "(ONet (nver %s) (nval %s) (nplen %s))" % (a, a, a))])
                if r[0] == "out":
                    h = self.fresh()
                    self.hoist(node, ("bind", h, r[2]))
                    r = ("bool", h)
                return ("bool", "(negb %s)" % r[1]) if isinstance(op, ast.NotIn) else r
        elif isinstance(op, (ast.Eq, ast.NotEq, ast.Lt)):
            (ta, a), (tb, b) = self.ex(node.left, env), self.ex(node.comparators[0], env)
            t = None
            if ta == "net" and tb == "net":         # BaseIP.__eq__ compares key(), BaseIP.__lt__ compares sort_key()
                t = "(py_net_ltb %s %s)" % (a, b) if isinstance(op, ast.Lt) else "(net_key_eqb %s %s)" % (a, b)
            elif ta == "dict" and tb == "dict" and not isinstance(op, ast.Lt):
                t = "(py_dict_eqb %s %s)" % (a, b)
            if t is not None:
                return ("bool", "(negb %s)" % t if isinstance(op, ast.NotEq) else t)
        self.restore(snap)
        self.pre = pre0
    return None


def sets_call(self, node, env):
    f = node.func
    name = f.id if isinstance(f, ast.Name) and f.id not in env else None
    plain = not node.keywords
    if name in ("__sets_dict_set", "__sets_dict_del", "__sets_dict_update", "__sets_dict_keys"):
        (td, d) = self.ex(node.args[0], env)
        if td != "dict":
            bad(node, "dict operation on %s" % show(td))
        if name == "__sets_dict_keys":
            return (("list", Cell("net")), d)
        (tk, kt) = self.ex(node.args[1], env)
        if tk != ("dict" if name == "__sets_dict_update" else "net"):
            bad(node, "dict operation with %s" % show(tk))
        if name == "__sets_dict_del":
            return ("out", "dict", "(py_dict_del %s %s)" % (d, kt))
        return ("dict", "(%s %s %s)" % ("py_dict_set" if name == "__sets_dict_set" else "py_dict_update", d, kt))
    if name == "__sets_dict_popitem":
        (td, d) = self.ex(node.args[0], env)
        if td != "dict":
            bad(node, "popitem() of %s" % show(td))
        return ("out", ("tup", ("dict", "net")), "(py_dict_popitem %s)" % d)
    if name == "__sets_self":
        (td, d) = self.ex(node.args[0], env)
        return ("ipset", d)
    if name == "_dict_keys" and plain and len(node.args) == 1 and self.mod.imports.get(name) == "netaddr.compat._dict_keys":
        (td, d) = self.ex(node.args[0], env)            # compat: lambda x: list(x.keys()) (Python 3) / x.keys() (Python 2)
        if td != "dict":
            bad(node, "_dict_keys of %s" % show(td))
        return (("list", Cell("net")), d)
    if name == "sorted" and plain and len(node.args) == 1 and not self.mod.toplevel("sorted"):
        snap, pre0 = self.snapshot(), list(self.pre)
        (td, d) = self.ex(node.args[0], env)
        if td == "dict":
            return (("list", Cell("net")), "(py_sorted_nets %s)" % d)   # IPNetwork ordering: BaseIP.__lt__ on sort_key()
        self.restore(snap)
        self.pre = pre0
        return None
    if name == "len" and plain and len(node.args) == 1 and not self.mod.toplevel("len"):
        snap, pre0 = self.snapshot(), list(self.pre)
        (td, d) = self.ex(node.args[0], env)
        if td == "dict":
            return ("int", "(Z.of_nat (List.length %s))" % d)           # the number of keys
        self.restore(snap)
        self.pre = pre0
        return None
    if name == "bool" and plain and len(node.args) == 1 and not self.mod.toplevel("bool"):
        snap, pre0 = self.snapshot(), list(self.pre)
        (td, d) = self.ex(node.args[0], env)
        if td == "dict":
            return ("bool", "(py_nonempty %s)" % d)
        self.restore(snap)
        self.pre = pre0
        return None
    if name == "sum" and plain and len(node.args) == 1 and not self.mod.toplevel("sum") and isinstance(node.args[0], ast.ListComp):
        lc = node.args[0]                               # sum([<int> for x in xs])
        g = lc.generators
        if not (len(g) == 1 and not g[0].ifs and not g[0].is_async and isinstance(g[0].target, ast.Name) and g[0].target.id not in env):
            bad(node, "sum() of something other than [<int> for x in xs]")
        it = g[0].iter
        (tl, l) = self.ex(_sets_pseudo("__sets_dict_keys", [it], it) if (_is_cidrs(it) or (isinstance(it, ast.Name) and env.get(it.id, ("",))[0] == "dict")) else it, env)
        elem = tl[1].find().t if is_list(tl) else None
        if elem is None:
            bad(node, "sum() over %s" % show(tl))
        cn, lenv = self.bind_local(g[0].target, g[0].target.id, elem, env, it)
        self.nohoist += 1
        e = self.int_(lc.elt, lenv)
        self.nohoist -= 1
        return ("int", "(py_sum (map (fun %s => %s) %s))" % (cn, e, l))
    if dotted(f) == "dict.fromkeys" and "dict" not in env and not self.mod.toplevel("dict") and plain and len(node.args) == 2:
        if not (isinstance(node.args[1], ast.Constant) and node.args[1].value is True):
            bad(node, "dict.fromkeys(l, v) with v other than True")
        src = node.args[0]
        if (isinstance(src, ast.GeneratorExp) and len(src.generators) == 1 and not src.generators[0].ifs and isinstance(src.elt, ast.Name)
                and isinstance(src.generators[0].target, ast.Name) and src.elt.id == src.generators[0].target.id and src.elt.id not in env):
            src = src.generators[0].iter                # (x for x in l), consumed at once: l
        if isinstance(src, ast.GeneratorExp):
            # (e for x in l) / (e for a, b, c in l), consumed at once, where e may raise: py_map_o (the first exception wins)
            g = src.generators
            names = [g[0].target] if isinstance(g[0].target, ast.Name) else list(getattr(g[0].target, "elts", []))
            if not (len(g) == 1 and not g[0].ifs and not g[0].is_async and names and all(isinstance(x, ast.Name) and x.id not in env for x in names)):
                bad(node, "generator expression other than (e for x in l) / (e for a, b in l) with fresh names")
            (tl, l) = self.ex(g[0].iter, env)
            elem = tl[1].find().t if is_list(tl) else None
            etys = [elem] if isinstance(g[0].target, ast.Name) else (list(elem[1]) if isinstance(elem, tuple) and elem[0] == "tup" else None)
            if elem is None or etys is None or len(etys) != len(names) or any(not is_value(t) for t in etys):
                bad(node, "generator expression over %s" % show(tl))
            lenv, cns = env, []
            for x, xty in zip(names, etys):
                cn, lenv = self.bind_local(x, x.id, xty, lenv, g[0].iter)
                cns.append(cn)
            saved, self.pre = self.pre, []
            r = self.rhs(src.elt, lenv)
            inner, self.pre = self.pre, saved
            if inner or r[0] != "out" or r[1] != "net":
                bad(node, "generator expression whose element is not one call that makes an IPNetwork")
            pat = cns[0] if isinstance(g[0].target, ast.Name) else "'(%s)" % ", ".join(cns)
            h = self.fresh()
            self.hoist(node, ("bind", h, "(py_map_o (fun %s => %s) %s)" % (pat, r[2], l)))
            return ("dict", "(py_dict_fromkeys %s)" % h)
        (tl, l) = self.ex(src, env)
        if not is_list(tl):
            bad(node, "dict.fromkeys of %s" % show(tl))
        unify(node, tl, ("list", Cell("net")), "dict.fromkeys")
        return ("dict", "(py_dict_fromkeys %s)" % l)
    if plain and not node.args and ((name == "IPSet" and "IPSet" in self.mod.classes) or (dotted(f) == "self.__class__" and self.recv == "IPSet")):
        # IPSet(): a new object (no state yet: the empty list) initialised by the translated __init__ for iterable None, flags 0
        node.state_call = True                          # the state it assigns is that of the new object
        return sets_method_call(self, node, "__init__", "(@nil net)", [("none", "tt")])
    if name == "cidr_merge" and plain and len(node.args) == 1 and self.mod.imports.get(name) == "netaddr.ip.cidr_merge":
        (tl, l) = self.ex(node.args[0], env)            # not translated: the hand model (SrcPreludeSplitter.py_cidr_merge); a dict = its keys
        if tl != "dict":
            if not is_list(tl):
                bad(node, "cidr_merge of %s" % show(tl))
            unify(node, tl, ("list", Cell("net")), "cidr_merge")
        return ("out", ("list", Cell("net")), "(py_cidr_merge %s)" % l)
    if name == "iprange_to_cidrs" and plain and len(node.args) == 2 and self.mod.imports.get(name) == "netaddr.ip.iprange_to_cidrs":
        args = [self.ex(x, env) for x in node.args]
        if all(ty == "obj" for ty, _ in args):          # IPAddress arguments: the callee's IPNetwork(start) makes them /width networks
            return self.generated(node, None, name, "", [("net", "(py_net_of_addr %s)" % t[3]) for _, t in args])
        return self.generated(node, None, name, "", args)
    if name == "IPRange" and plain and len(node.args) == 2 and self.mod.imports.get(name) == "netaddr.ip.IPRange":
        args = [self.ex(x, env) for x in node.args]     # not translated: the hand model of IPRange.__init__ on two IPAddress objects
        if any(ty != "obj" for ty, _ in args):
            bad(node, "IPRange() of something other than two IPAddress objects")
        return ("out", ("tup", ("int", "int", "int")), "(py_iprange %s %s)" % (args[0][1][3], args[1][1][3]))
    if isinstance(f, ast.Attribute) and isinstance(f.value, ast.Name) and env.get(f.value.id, ("",))[0] == "net" and plain:
        x, m = env[f.value.id][1], f.attr               # x.m(..) for an IPNetwork x
        r = self.tr.modof("IPNetwork").lookup("IPNetwork", m)
        if not r or r[2]:
            bad(node, "call of %s.%s" % (f.value.id, m))
        if m in ("previous", "next") and not node.args:
            if [a.arg for a in r[1].args.args] != ["self", "step"] or [const_int(d) for d in r[1].args.defaults] != [1]:
                bad(node, "IPNetwork.%s is not %s(self, step=1)" % (m, m))
            return ("out", "net", "(py_net_%s %s)" % (m, x))       # not translated: the hand model (Sets.net_previous / net_next)
        d = self.tr.get("IPNetwork", m, node)
        args = [self.ex(a, env) for a in node.args]
        dflt, params = d.f.args.defaults, d.f.args.args[1:]
        for i in range(len(args), len(d.params)):
            j = i - (len(params) - len(dflt))
            if j < 0 or const_int(dflt[j]) is None:
                bad(node, "call of IPNetwork.%s without argument %s" % (m, params[i].arg))
            args = args + [("int", "%d" % const_int(dflt[j]))]
        return self.generated(node, "IPNetwork", m, "(nver %s) (width (nver %s)) (nval %s) (nplen %s)" % (x, x, x, x), args)
    if isinstance(f, ast.Attribute) and sets_ipset_var(self, f.value, env):
        r = self.mod.lookup("IPSet", f.attr)            # x.m(..) for an IPSet x other than self
        if not r or r[2] or node.keywords:
            bad(node, "call of %s.%s" % (f.value.id, f.attr))
        return sets_method_call(self, node, f.attr, env[f.value.id][1], [self.ex(x, env) for x in node.args])
    if (self.recv == "IPSet" and isinstance(f, ast.Attribute) and dotted(f) == "self." + f.attr and f.attr != "__class__" and plain
            and not sets_listed("IPSet", f.attr) and sets_variants(f.attr)):
        k = len(STATEVARS["IPSet"])                     # self.m(..) for a method translated in variants (by the type of its argument)
        return sets_method_call(self, node, f.attr, " ".join(self.ex(x, env)[1] for x in node.args[:k]), [self.ex(x, env) for x in node.args[k:]], "dict")
    return None


def sets_listed(recv, name):
    return any(w[:2] == (recv, name) for u in SETS_UNITS for w in u[4])


def sets_variants(name):
    return [w[1] for u in SETS_UNITS for w in u[4] if w[0] == "IPSet" and w[1].partition(":")[0] == name and ":" in w[1]]


def sets_method_call(self, node, name, state, args, newstate="ipset"):
    """call of IPSet method `name` on the IPSet `state`: the variant `name:<type of the first argument>` if the method is
    translated in variants; missing trailing arguments take the (int constant) defaults of the definition"""
    if not sets_listed("IPSet", name):
        ty = args[0][0] if args else "none"
        v = "%s:%s" % (name, ty if isinstance(ty, str) else ty[0])
        if v not in sets_variants(name):
            bad(node, "call of IPSet.%s with %s: no such variant is translated" % (name, show(ty)))
        name = v
    d = self.tr.get("IPSet", name, node)
    dflt = d.f.args.defaults
    params = d.f.args.args[len(d.f.args.args) - len(d.params):]
    for i in range(len(args), len(d.params)):
        j = i - (len(params) - len(dflt))
        if j < 0 or const_int(dflt[j]) is None:
            bad(node, "call of IPSet.%s without argument %s, which has no int default" % (name, params[i].arg))
        args = args + [("int", "%d" % const_int(dflt[j]))]
    r = self.generated(node, "IPSet", name, state, args)
    if d.mutating and not d.valued:
        return (r[0], newstate, r[2]) if r[0] == "out" else (newstate, r[1])    # the new state of that IPSet
    return r


def sets_stmt(self, stmts, env, k, after):
    """the statement forms of the sets units; None: not one of them"""
    s, rest = stmts[0], list(stmts[1:])
    go = lambda e: self.block(rest, e, k, after)
    if isinstance(s, ast.Assign) and len(s.targets) == 1 and _is_cidrs(s.targets[0]) and sets_ipset_var(self, s.targets[0].value, env):
        x = s.targets[0].value.id                       # x._cidrs = e for a local IPSet x: x is now the IPSet with that dict
        r = self.rhs(s.value, env)
        pre = self.take_pre()
        if (r[1] if r[0] == "out" else r[0]) != "dict":
            bad(s, "assignment of %s to _cidrs" % show(r[1] if r[0] == "out" else r[0]))
        cn, env = self.bind_local(s, x, "ipset", env, s.value)
        return self.wrap(pre, ("bind", cn, r[2], go(env)) if r[0] == "out" else (go(env) if r[1] == cn else ("let", cn, r[1], go(env))))
    if isinstance(s, ast.Assign) and len(s.targets) == 1 and isinstance(s.targets[0], ast.Tuple) and all(isinstance(x, ast.Name) for x in s.targets[0].elts):
        snap, pre0 = self.snapshot(), list(self.pre)
        r = self.rhs(s.value, env)
        ty = r[1] if r[0] == "out" else r[0]
        if isinstance(ty, tuple) and ty[0] == "tup" and len(ty[1]) == len(s.targets[0].elts) and "obj" in ty[1]:
            pre, names = self.take_pre(), []            # a, b = e where a component is an IPAddress object (a pair)
            for x, xty in zip(s.targets[0].elts, ty[1]):
                cn, env = self.bind_local(x, x.id, xty, env, s.value)
                if xty == "obj":
                    env[x.id] = ("obj", self.objvar(cn))
                names.append(cn)
            return self.wrap(pre, ("bind" if r[0] == "out" else "let", pattern(names), r[2] if r[0] == "out" else r[1], go(env)))
        self.restore(snap)
        self.pre = pre0
    if (isinstance(s, (ast.Assign, ast.AugAssign)) and isinstance((s.targets[0] if isinstance(s, ast.Assign) else s.target), ast.Attribute)):
        tgt = s.targets[0] if isinstance(s, ast.Assign) else s.target
        if (tgt.attr == "prefixlen" and isinstance(tgt.value, ast.Name) and env.get(tgt.value.id, ("",))[0] == "net"
                and (isinstance(s, ast.AugAssign) or len(s.targets) == 1)):
            # x.prefixlen = e on an owned IPNetwork object: through the property's setter _set_prefixlen (range check), then a record update
            c = self.tr.modof("IPNetwork").classes["IPNetwork"]
            props = [st for st in c.body if isinstance(st, ast.Assign) and len(st.targets) == 1 and dotted(st.targets[0]) == "prefixlen"]
            if not (len(props) == 1 and isinstance(props[0].value, ast.Call) and dotted(props[0].value.func) == "property"
                    and len(props[0].value.args) >= 2 and dotted(props[0].value.args[1]) == "_set_prefixlen"):
                bad(s, "IPNetwork.prefixlen is not property(.., _set_prefixlen, ..)")
            x, old = tgt.value.id, env[tgt.value.id][1]
            if not self.owned(x):
                bad(s, "attribute assignment on %s, which may be visible under another name" % x)
            value = s.value if isinstance(s, ast.Assign) else ast.copy_location(ast.BinOp(_sets_load(tgt), s.op, s.value), s)
            e = self.int_(ast.fix_missing_locations(value), env)
            pre = self.take_pre()
            d = self.tr.get("IPNetwork", "_set_prefixlen", s)
            self.depfns.append(d)
            h = self.fresh()
            cn, env = self.bind_local(s, x, "net", env, value)
            return self.wrap(pre, ("bind", h, "(%s (nver %s) (width (nver %s)) (nval %s) (nplen %s) (SInt %s))" % (d.cname, old, old, old, old, e),
                                   ("let", cn, "{| nver := nver %s; nval := nval %s; nplen := %s |}" % (old, old, h), go(env))))
    if isinstance(s, ast.Assign) and isinstance(s.value, ast.Call) and getattr(s.value, "state_call", False) and isinstance(s.value.func, ast.Attribute):
        key = (self.recv, s.value.func.attr)
        if key in SETS_MUTABLE_PARAMS and dotted(s.value.func) == "self." + s.value.func.attr:
            r = self.mod.lookup(*key)
            i = [a.arg for a in r[1].args.args].index(SETS_MUTABLE_PARAMS[key]) - 1 + len(STATEVARS[self.recv])
            a = s.value.args[i] if i < len(s.value.args) else None
            if not isinstance(a, ast.Name) or any(isinstance(n, ast.Name) and n.id == a.id and isinstance(n.ctx, ast.Load)
                                                  for st in rest + after for n in ast.walk(st)):
                bad(s, "the argument of %s, which changes it in place, is read after the call" % key[1])
    if isinstance(s, ast.If):
        t, neg = s.test, False
        if isinstance(t, ast.UnaryOp) and isinstance(t.op, ast.Not):
            t, neg = t.operand, True
        tyname = lambda ty: ty if isinstance(ty, str) else ty[0]
        if (isinstance(t, ast.Compare) and len(t.ops) == 1 and isinstance(t.ops[0], (ast.Is, ast.IsNot)) and isinstance(t.left, ast.Name)
                and isinstance(t.comparators[0], ast.Constant) and t.comparators[0].value is None and t.left.id in self.ptypes_declared
                and t.left.id in env and tyname(env[t.left.id][0]) in SETS_CLASS_OF):
            # <parameter> is None / is not None: decided by the declared type of the parameter
            yes = ((tyname(env[t.left.id][0]) == "none") == isinstance(t.ops[0], ast.Is)) != neg
            return self.block(sets_then(s.body if yes else s.orelse, rest), env, k, after)
        if (isinstance(t, ast.Call) and dotted(t.func) == "isinstance" and len(t.args) == 2 and not t.keywords and isinstance(t.args[0], ast.Name)
                and t.args[0].id in env and tyname(env[t.args[0].id][0]) in SETS_CLASS_OF):
            # isinstance(<parameter>, C) / (C1, C2): decided by the declared type of the parameter
            cs = t.args[1].elts if isinstance(t.args[1], ast.Tuple) else [t.args[1]]
            if any(not isinstance(c, ast.Name) or c.id in env or not (c.id in self.mod.classes or (self.mod.imports.get(c.id) or "").startswith("netaddr.")) for c in cs):
                bad(s, "isinstance against something other than classes of netaddr")
            if any(c.id == "_int_type" for c in cs) and self.mod.imports.get("_int_type") != "netaddr.compat._int_type":
                bad(s, "_int_type is not netaddr.compat._int_type")
            if any(c.id not in SETS_LEAF_CLASSES for c in cs):
                bad(s, "isinstance against %s: not decided by the declared type" % [c.id for c in cs if c.id not in SETS_LEAF_CLASSES][0])
            yes = (SETS_CLASS_OF[tyname(env[t.args[0].id][0])] in [c.id for c in cs]) != neg
            return self.block(sets_then(s.body if yes else s.orelse, rest), env, k, after)
    if (isinstance(s, ast.Try) and len(s.handlers) == 1 and dotted(s.handlers[0].type) == "AttributeError" and not s.orelse and not s.finalbody
            and "AttributeError" not in env and not self.mod.toplevel("AttributeError")
            and all((_is_cidrs(n) and sets_ipset_var(self, n.value, env)) for st in s.body for n in ast.walk(st) if isinstance(n, ast.Attribute))
            and not any(isinstance(n, (ast.Call, ast.Subscript, ast.BinOp)) for st in s.body for n in ast.walk(st))):
        # try: .. / except AttributeError: ..  around a body whose only attribute reads are `_cidrs` of IPSet objects, without calls:
        # the handler is dead code (the parameter is declared an IPSet)
        return self.block(s.body + rest, env, k, after)
    if (isinstance(s, ast.Return) and isinstance(s.value, ast.BoolOp) and isinstance(s.value.op, ast.And) and len(s.value.values) == 2
            and isinstance(s.value.values[0], ast.Compare) and isinstance(s.value.values[1], ast.Call)):
        # return <comparison> and <call that can raise>: the call is evaluated only if the comparison holds
        a, b = s.value.values
        new = ast.copy_location(ast.If(test=a, body=[ast.copy_location(ast.Return(value=b), s)],
                                       orelse=[ast.copy_location(ast.Return(value=ast.copy_location(ast.Constant(value=False), s)), s)]), s)
        return self.block([ast.fix_missing_locations(new)] + rest, env, k, after)
    return None


def sets_then(chosen, rest):
    """the statements that run when a decided `if` takes the branch `chosen`: the rest of the block follows unless the branch
    ends with return / raise"""
    return list(chosen) if chosen and isinstance(chosen[-1], (ast.Return, ast.Raise)) else list(chosen) + rest


def sets_owned(self, x):
    """a local that holds a private copy: every binding is `x = IPNetwork(<name>)` (the copy constructor) and every read is
    x.<attribute> or the left operand of `x in <dict>`: then `x._prefixlen = e` is a plain update of x"""
    bases = {id(n.value) for n in ast.walk(self.f) if isinstance(n, ast.Attribute)}
    bases |= {id(n.left) for n in ast.walk(self.f) if isinstance(n, ast.Compare) and len(n.ops) == 1 and isinstance(n.ops[0], (ast.In, ast.NotIn))}
    bases |= {id(o) for n in ast.walk(self.f) if isinstance(n, ast.Compare) and len(n.ops) == 1 and isinstance(n.ops[0], (ast.Eq, ast.NotEq))
              for o in [n.left] + n.comparators}        # x == y reads key() only
    binds = [st for st in ast.walk(self.f) if isinstance(st, (ast.Assign, ast.AugAssign, ast.For, ast.With, ast.NamedExpr))
             and any(isinstance(n, ast.Name) and n.id == x and isinstance(n.ctx, ast.Store) and id(n) not in bases for n in ast.walk(st))]
    copyctor = lambda st: (isinstance(st, ast.Assign) and len(st.targets) == 1 and isinstance(st.targets[0], ast.Name) and isinstance(st.value, ast.Call)
                           and dotted(st.value.func) == "IPNetwork" and len(st.value.args) == 1 and not st.value.keywords
                           and isinstance(st.value.args[0], ast.Name) and self.mod.imports.get("IPNetwork") == "netaddr.ip.IPNetwork")
    for n in ast.walk(self.f):                       # x as the key of d[x] = True / del d[x] (rewritten by sets_prepare)
        if isinstance(n, ast.Call) and isinstance(n.func, ast.Name) and n.func.id in ("__sets_dict_set", "__sets_dict_del") and len(n.args) == 2:
            bases.add(id(n.args[1]))
    reads_ok = all(id(n) in bases for n in ast.walk(self.f) if isinstance(n, ast.Name) and n.id == x and isinstance(n.ctx, ast.Load))
    if SETS_MUTABLE_PARAMS.get((self.recv, self.pyname)) == x and x in [a.arg for a in self.f.args.args] and not binds and reads_ok:
        def keyop(st, name):
            return (isinstance(st, ast.Assign) and isinstance(st.value, ast.Call) and isinstance(st.value.func, ast.Name)
                    and st.value.func.id == name and len(st.value.args) == 2 and isinstance(st.value.args[1], ast.Name) and st.value.args[1].id == x)
        for blk in [getattr(n, nm) for n in ast.walk(self.f) for nm in ("body", "orelse") if isinstance(getattr(n, nm, None), list)]:
            out = False                                 # is x known to be out of the dict at this point of the block?
            for st in blk:
                if keyop(st, "__sets_dict_del"):
                    out = True
                elif keyop(st, "__sets_dict_set"):
                    out = False
                elif (isinstance(st, (ast.Assign, ast.AugAssign)) and any(
                        isinstance(t, ast.Attribute) and isinstance(t.value, ast.Name) and t.value.id == x
                        for t in (st.targets if isinstance(st, ast.Assign) else [st.target])) and not out):
                    return False
        return True
    return (bool(binds) and all(copyctor(st) for st in binds) and x not in [a.arg for a in self.f.args.args] and reads_ok)


# ---- SRCA hooks
_is_value0_srca = is_value
_parse_type0 = parse_type
# the class a declared parameter type stands for (IPGlob, the subclass of IPRange, is not told apart: `rng` is not used for
# isinstance tests against IPGlob)
SETS_CLASS_OF = {"ipset": "IPSet", "net": "IPNetwork", "iprange": "IPRange", "none": None, "list": None}
# the classes an isinstance test may name: none of them is a base class of another one of them, and no declared type stands for
# an int (a test against a base class such as BaseIP, or against the subclass IPGlob, is rejected)
SETS_LEAF_CLASSES = ("IPSet", "IPNetwork", "IPRange", "_int_type")


def parse_type(s):
    if s == "list rng":          # a list of (version, first, last) tuples
        return ("list", Cell(("tup", ("int", "int", "int"))))
    return _parse_type0(s)


def is_value(t):
    return t in SETS_VALUE_TYPES or _is_value0_srca(t)


def _wrap(cls, name):
    def deco(new):
        old = getattr(cls, name)

        def wrapped(self, *a, **kw):
            return new(old, self, *a, **kw)
        wrapped.__name__ = name
        setattr(cls, name, wrapped)
        return new
    return deco


@_wrap(Fn, "rhs")
def _srca_rhs(old, self, node, env):
    if _sets_on(self):
        r = sets_rhs(self, node, env)
        if r is not None:
            self.size += 1
            return r
    return old(self, node, env)


@_wrap(Fn, "bool_")
def _srca_bool(old, self, node, env):
    if not _sets_on(self):
        return old(self, node, env)
    ty, t = self.ex(node, env)
    if ty == "bool":
        return t
    if ty == "int":
        return "(negb (%s =? 0))" % t                   # truth value of an int
    if is_list(ty) or ty == "dict":
        return "(py_nonempty %s)" % t
    if ty == "ipset":                                   # truth value of an IPSet: its __nonzero__ / __bool__
        r = self.generated(node, "IPSet", "__nonzero__", t, [])
        if r[0] == "out":
            bad(node, "IPSet.__nonzero__ can raise")
        return r[1]
    bad(node, "bool expression expected, got %s" % show(ty))


@_wrap(Fn, "block")
def _srca_block(old, self, stmts, env, k, after):
    if stmts and _sets_on(self):
        r = sets_stmt(self, stmts, env, k, after)
        if r is not None:
            return r
    return old(self, stmts, env, k, after)


@_wrap(Fn, "loop")
def _srca_loop(old, self, s, rest, env, k, after):
    if _sets_on(self):
        # a loop after an `if` with exits is reached once per branch: number the auxiliary names h<N> from a base that depends on
        # the loop only, so that both translations are the same text (names are lexically scoped; the bases are far apart)
        self.nfresh = 1000 * self.loopno[id(s)]
        if (isinstance(s, ast.For) and isinstance(s.target, ast.Name) and isinstance(s.iter, ast.Name) and is_list(env.get(s.iter.id, ("",))[0])
                and env[s.iter.id][0][1].find().t in SETS_CLASS_OF):
            # `if isinstance(<loop variable>, C): ..` at the top of the body, for a list whose element type is declared: decided here
            # (the dropped branch may rebind the loop variable); the node is our own copy of the function
            elem, body = env[s.iter.id][0][1].find().t, []
            for st in s.body:
                t = st.test if isinstance(st, ast.If) else None
                if (isinstance(t, ast.Call) and dotted(t.func) == "isinstance" and len(t.args) == 2 and not t.keywords
                        and isinstance(t.args[0], ast.Name) and t.args[0].id == s.target.id and not body
                        and all(isinstance(c, ast.Name) and c.id not in env for c in (t.args[1].elts if isinstance(t.args[1], ast.Tuple) else [t.args[1]]))):
                    cs = [c.id for c in (t.args[1].elts if isinstance(t.args[1], ast.Tuple) else [t.args[1]])]
                    if any(not (c in self.mod.classes or (self.mod.imports.get(c) or "").startswith("netaddr.")) or c not in SETS_LEAF_CLASSES for c in cs):
                        bad(st, "isinstance against something other than IPSet / IPNetwork / IPRange / _int_type")
                    body += st.body if SETS_CLASS_OF[elem] in cs else st.orelse
                else:
                    body.append(st)
            s.body = body or [ast.copy_location(ast.Pass(), s)]
    return old(self, s, rest, env, k, after)


@_wrap(Fn, "owned")
def _srca_owned(old, self, x):
    return (_sets_on(self) and sets_owned(self, x)) or old(self, x)


@_wrap(Fn, "method_mutates")
def _srca_method_mutates(old, self, name, seen=()):
    if old(self, name, seen):
        return True
    r = self.mod.lookup(self.recv, name) if self.recv == "IPSet" else None
    if r is None:
        return False
    paths = {"self." + a for a, _ in STATEVARS[self.recv]}      # self._cidrs[k] = True / del self._cidrs[k]
    return any(isinstance(n, ast.Subscript) and not isinstance(n.ctx, ast.Load) and dotted(n.value) in paths for n in ast.walk(r[1]))


@_wrap(Fn, "state_as_locals")
def _srca_state_as_locals(old, self, f):
    return old(self, sets_prepare(f, self, self.mod) if self.recv == "IPSet" else f)


@_wrap(Module, "function")
def _srca_function(old, self, name):
    f = old(self, name)
    return sets_prepare(f, None, self) if self.fn == SETSFILE else f


@_wrap(Translator, "__init__")
def _srca_tr_init(old, self, *a, **kw):
    old(self, *a, **kw)
    if self.out:
        BY_OUT[self.out] = self


@_wrap(Translator, "get")
def _srca_tr_get(old, self, recv, name, node=None):
    if self.out in SETS_FILES and any(w[:2] == (recv, name) for w in SETS_IP_UNIT[4]) and BY_OUT.get(SETS_IP_UNIT[1]) is not None:
        return BY_OUT[SETS_IP_UNIT[1]].get(recv, name, node)
    if self.out in SETS_FILES and not any(w[:2] == (recv, name) for w in self.specs):
        for out in SETS_FILES:                          # a definition of an earlier sets unit
            t = BY_OUT.get(out)
            if t is not None and t is not self and any(w[:2] == (recv, name) for w in t.specs):
                return t.get(recv, name, node)
    return old(self, recv, name, node)


def constants(strategy=STRATEGY):
    """width / version / max_int of the given strategy modules, as Gallina constants."""
    out = []
    for m, fn in strategy:
        mod = Module(fn)
        known = {}
        for c in ("width", "version", "max_int"):
            ds = [a for a in mod.tree.body if isinstance(a, (ast.Assign, ast.AugAssign, ast.AnnAssign))
                  and any(isinstance(n, ast.Name) and n.id == c for t in (a.targets if isinstance(a, ast.Assign) else [a.target])
                          for n in ast.walk(t))]
            if len(ds) != 1 or not isinstance(ds[0], ast.Assign) or len(ds[0].targets) != 1 or not isinstance(ds[0].targets[0], ast.Name):
                bad(ds[0] if ds else None, "module constant %s is not assigned exactly once at top level" % c, fn)

            def ev(n):
                if isinstance(n, ast.Constant) and isinstance(n.value, int) and not isinstance(n.value, bool):
                    return literal(n, mod.text), n.value
                if isinstance(n, ast.Name) and n.id in known:
                    return "src_%s_%s" % (m, n.id), known[n.id]
                if isinstance(n, ast.BinOp) and type(n.op) in (ast.Add, ast.Sub, ast.Mult, ast.Pow):
                    (a, x), (b, y) = ev(n.left), ev(n.right)
                    if isinstance(n.op, ast.Pow) and y < 0:
                        bad(n, "negative exponent", fn)
                    return ARITH[type(n.op)] % (a, b), {ast.Add: x + y, ast.Sub: x - y, ast.Mult: x * y, ast.Pow: x ** max(y, 0)}[type(n.op)]
                bad(n, "constant expression %s" % type(n).__name__, fn)
            term, known[c] = ev(ds[0].value)
            out.append("(* %s: %s, line %d *)\nDefinition src_%s_%s : Z := %s.\n" % (fn, c, ds[0].lineno, m, c, term))
    return out


HEAD = ("(* GENERATED on every run by harness/gen/pysrc.py from the text of %s%s\n"
        "   of the working tree; do not edit.  Proofs/GenOk_Src*.v prove each definition equal to the hand-written model. *)\n"
        "From Coq Require Import ZArith List Bool.\nFrom NV Require Import Base.PyVal Model.Ip Model.SrcPrelude%s.\n"
        "Import ListNotations.\nOpen Scope Z_scope.\n\n")


def failures(tr, failed, mine):
    """a function outside the subset keeps its name, with a one-constructor type NAMED after the reason: every lemma that
    mentions it stops compiling and the Coq error (hence the replay file) spells out file, line and reason"""
    fails = ""
    for i, (k, v) in enumerate(failed):
        if not mine(k):
            continue
        ty = "untranslatable_%d__%s" % (i + 1, re.sub(r"[^A-Za-z0-9]+", "_", v).strip("_"))
        fails += ("(* UNTRANSLATABLE %s: %s *)\nInductive %s : Set := Untranslatable_%d.\nDefinition %s : %s := Untranslatable_%d.\n\n"
                  % (tr.mangle(*k).replace("src_", "", 1), re.sub(r"[^ -~]", "?", v).replace("*)", "* )"), ty, i + 1, tr.mangle(*k), ty, i + 1))
    return fails


def generate():
    BY_MODULE.clear()
    BY_FILE.clear()
    tr = Translator().run()
    units = [Translator(fn, out, prefix, specs, tr).run() for fn, out, prefix, _, specs in UNITS]
    names = [x for t in [tr] + units for k in t.order for x in [t.mangle(*k)] + [L.name for L in t.done[k].loops]]
    assert len(set(names)) == len(names), "name collision"
    failed = sorted(tr.failed.items(), key=lambda kv: (kv[0][0] or "", kv[0][1]))
    out = {}
    for fn in FILES[:len(FILES) - len(UNITS)]:
        mine = [k for k in tr.order if tr.done[k].file == fn]
        uses = sorted({tr.done[d].file for k in mine for d in tr.done[k].deps} - {fn} | ({FILES[0]} if fn != FILES[0] else set()),
                      key=FILES.index)
        head = HEAD % (IPFILE, " and netaddr/strategy/ipv4.py, ipv6.py" if fn == FILES[0] else "", "".join(" Gen." + u[:-2] for u in uses))
        fails = failures(tr, failed, lambda k: (FILE_OF.get(k[1], FILES[0]) if k[0] is None else FILES[0]) == fn)
        text = head + ("\n".join(constants()) + "\n" if fn == FILES[0] else "") + "\n".join(tr.done[k].body_text for k in mine) + (
            "\n" + fails if fails else "")
        text.encode("ascii")
        out[fn] = text
    for t, (fn, ofn, _, req, _) in zip(units, UNITS):
        uses = sorted({d.file for k in t.order for d in t.done[k].depfns} - {ofn}, key=FILES.index)
        fails = failures(t, sorted(t.failed.items(), key=lambda kv: (kv[0][0] or "", kv[0][1])), lambda k: True)
        consts = constants(UNIT_STRATEGY[ofn]) if ofn in UNIT_STRATEGY else []
        consts += [t.consts[c] for c in sorted(t.consts)] + ([UNIT_PREAMBLE[ofn]] if ofn in UNIT_PREAMBLE else [])
        text = HEAD % (fn + "".join(", " + f for _, f in UNIT_STRATEGY.get(ofn, ())), "", req + "".join(" Gen." + u[:-2] for u in uses)) + (
            "From Coq Require Import String Ascii.\n\n" if "Base.PyStr" in req else "") + (
            "\n".join(consts) + "\n" if consts else "") + "\n".join(t.done[k].body_text for k in t.order) + ("\n" + fails if fails else "") + (
            UNIT_POSTAMBLE.get(ofn, ""))
        text.encode("ascii")
        out[ofn] = text
    return out


# ==== SRCC: methods ==================================================================================================================
# Everything below serves the units of SRCC_UNITS only (`self.tr.out in SRCC_OUT`); for every other unit the wrapped methods
# behave exactly as before (their generated text is byte-identical).  A hook returns None for a form it does not read, and the
# original method (which fails closed) takes over.
BY_MODULE_ALL = {}          # dotted module name -> every translator made for its file, in UNITS order


def srcc_on(fn):
    return fn.tr.out in SRCC_OUT


def srcc_modname(fn):
    return re.sub(r"(/__init__)?\.py$", "", fn).replace("/", ".")


_translator_init0 = Translator.__init__


def _srcc_translator_init(self, fn=IPFILE, out=None, prefix="", specs=None, parent=None):
    _translator_init0(self, fn, out, prefix, specs, parent)
    BY_MODULE_ALL.setdefault(srcc_modname(fn), []).append(self)


Translator.__init__ = _srcc_translator_init
_owner_of0 = Translator.owner_of


def _srcc_owner_of(self, name):
    """as before; in addition a module-level function of a file that several units share (or that is imported from such a file)
    is found in whichever of those units lists it"""
    r = _owner_of0(self, name)
    if r is not None:
        return r
    imp = self.mod.imports.get(name)
    module, _, real = imp.rpartition(".") if imp else (srcc_modname(self.fn), "", name)
    if not imp and self.mod.toplevel(name) and not any(isinstance(n, ast.FunctionDef) and n.name == name for n in self.mod.tree.body):
        return None
    for t in BY_MODULE_ALL.get(module, ()):
        if t is not self and any(k[0] is None and k[1] == real for k in t.specs) and not t.mod.imports.get(real):
            return t, real
    return None


Translator.owner_of = _srcc_owner_of
_generate0 = generate


def generate():
    BY_MODULE_ALL.clear()
    return _generate0()


_is_value0 = is_value


def is_value(t):
    return t in ("bytes", "optstr", "cls6", "optcls6") or _is_value0(t)


def srcc_struct_sizes(node):
    """field sizes (bytes) of a literal struct format of unsigned big-endian fields: '>I' '>4I' '>8H' '>2H' '>H', or one-byte
    fields in native order: 'B' '4B'"""
    if not (isinstance(node, ast.Constant) and isinstance(node.value, str)):
        bad(node, "struct format that is no string literal")
    m = re.fullmatch(r"(>?)((?:\d*[BHI])+)", node.value)
    if not m:
        bad(node, "struct format %r" % node.value)
    sizes = []
    for cnt, code in re.findall(r"(\d*)([BHI])", m.group(2)):
        if not m.group(1) and code != "B":
            bad(node, "struct format %r: multi-byte field in native byte order" % node.value)
        sizes += [{"B": 1, "H": 2, "I": 4}[code]] * (int(cnt) if cnt else 1)
    if not sizes or len(sizes) > 32:
        bad(node, "struct format %r" % node.value)
    return sizes


def srcc_nats(sizes):
    return "[%s]" % "; ".join("%d%%nat" % n for n in sizes)


def srcc_strlit(s, node=None):
    if not all(32 <= ord(c) < 127 for c in s):
        bad(node, "string literal with a non-printable character")
    return "\"%s\"%%string" % s.replace('"', '""')


def srcc_module_const(self, name, node):
    """(type, term) of the module-level constant `name` of this unit's file: bound exactly once, at top level, by `name = <int
    constant expression over literals and other such constants>` or `name = '<text>'`; emitted as a generated Definition
    src_<prefix><name> with its VALUE (or, for width / version / max_int of ipv4.py / ipv6.py, the constant of Gen/pysrc_gen.v).
    None if `name` is not such a constant."""
    binds = [st for st in self.mod.tree.body for n in ([st] if isinstance(st, (ast.FunctionDef, ast.ClassDef)) else ast.walk(st))
             if (isinstance(n, (ast.FunctionDef, ast.ClassDef)) and n.name == name)
             or (isinstance(n, ast.Name) and n.id == name and isinstance(n.ctx, ast.Store))
             or (isinstance(n, ast.alias) and (n.asname or n.name) == name)]
    if len(binds) != 1 or not (isinstance(binds[0], ast.Assign) and len(binds[0].targets) == 1 and isinstance(binds[0].targets[0], ast.Name)):
        return None
    if any(isinstance(n, ast.Global) and name in n.names for n in ast.walk(self.mod.tree)):
        return None
    v, cn = binds[0].value, self.mangle(None, name)
    if (self.prefix, name) in SRCC_SHARED_CONSTS:
        return ("int", cn)
    if isinstance(v, ast.Constant) and isinstance(v.value, str):
        ty, term = "str", srcc_strlit(v.value, v)
    else:
        def ev(n, depth=0):
            if const_int(n) is not None:
                return const_int(n)
            if isinstance(n, ast.Name) and depth < 8:
                ds = [st for st in self.mod.tree.body for x in ([st] if isinstance(st, (ast.FunctionDef, ast.ClassDef)) else ast.walk(st))
                      if (isinstance(x, (ast.FunctionDef, ast.ClassDef)) and x.name == n.id)
                      or (isinstance(x, ast.Name) and x.id == n.id and isinstance(x.ctx, ast.Store))
                      or (isinstance(x, ast.alias) and (x.asname or x.name) == n.id)]
                if len(ds) == 1 and isinstance(ds[0], ast.Assign) and len(ds[0].targets) == 1 and isinstance(ds[0].targets[0], ast.Name) and not any(
                        isinstance(g, ast.Global) and n.id in g.names for g in ast.walk(self.mod.tree)):
                    return ev(ds[0].value, depth + 1)
            if isinstance(n, ast.BinOp) and type(n.op) in (ast.Add, ast.Sub, ast.Mult, ast.FloorDiv, ast.Pow):
                a, b = ev(n.left, depth), ev(n.right, depth)
                if (isinstance(n.op, ast.FloorDiv) and b == 0) or (isinstance(n.op, ast.Pow) and not 0 <= b <= 4096):
                    bad(n, "constant expression")
                return {ast.Add: a + b, ast.Sub: a - b, ast.Mult: a * b, ast.FloorDiv: a // (b or 1), ast.Pow: a ** max(b, 0)}[type(n.op)]
            bad(n, "constant expression %s" % type(n).__name__)
        try:
            val = ev(v)
        except Untranslatable:
            return None
        ty, term = "int", "%d" % val if val >= 0 else "(%d)" % val
    self.consts.setdefault(cn, "(* %s: %s, line %d: the value of this module constant *)\nDefinition %s : %s := %s.\n"
                           % (self.fn, name, binds[0].lineno, cn, COQTY[ty], term))
    return (ty, cn)


Translator.srcc_module_const = srcc_module_const


def srcc_core_const(self, name, node):
    """(type, term) of an int constant imported by `from netaddr.core import NAME`: bound in netaddr/core.py exactly once, at top
    level, by `[X =] NAME = <int literal>`; emitted as the generated constant src_<prefix><NAME> with its value"""
    if self.mod.imports.get(name) != "netaddr.core." + name or [n for n in ast.walk(self.mod.tree) if isinstance(n, ast.Name)
                                                                 and n.id == name and isinstance(n.ctx, ast.Store)]:
        return None
    fn = "netaddr/core.py"
    tree = ast.parse(open(os.path.join(REPO, fn), encoding="utf-8").read())
    binds = [st for st in tree.body for x in ([st] if isinstance(st, (ast.FunctionDef, ast.ClassDef)) else ast.walk(st))
             if (isinstance(x, (ast.FunctionDef, ast.ClassDef)) and x.name == name)
             or (isinstance(x, ast.Name) and x.id == name and isinstance(x.ctx, ast.Store))
             or (isinstance(x, ast.alias) and (x.asname or x.name) == name)]
    if (len(binds) != 1 or not isinstance(binds[0], ast.Assign) or not all(isinstance(t, ast.Name) for t in binds[0].targets)
            or const_int(binds[0].value) is None or any(isinstance(g, ast.Global) and name in g.names for g in ast.walk(tree))):
        bad(node, "%s is not bound in netaddr/core.py once, at top level, to an int literal" % name)
    cn = self.mangle(None, name)
    self.consts.setdefault(cn, "(* %s: %s, line %d (imported by %s): the value of this constant *)\nDefinition %s : Z := %d.\n"
                           % (fn, name, binds[0].lineno, self.fn, cn, const_int(binds[0].value)))
    return ("int", cn)


Translator.srcc_core_const = srcc_core_const


def srcc_class_const(self, name, node):
    """a module-level class used as an IPv6 dialect: the pair (word_fmt, compact) of its class attributes (text literal, bool literal),
    looked up through the bases; emitted as the generated constant src_<prefix><name>.  None if `name` is no such class."""
    if name not in self.mod.classes or self.mod.imports.get(name):
        return None
    binds = [n for st in self.mod.tree.body for n in ([st] if isinstance(st, (ast.FunctionDef, ast.ClassDef)) else ast.walk(st))
             if (isinstance(n, (ast.FunctionDef, ast.ClassDef)) and n.name == name)
             or (isinstance(n, ast.Name) and n.id == name and isinstance(n.ctx, ast.Store))]
    if len(binds) != 1:
        return None

    def attr(cls, a, depth=0):
        c = self.mod.classes.get(cls)
        if c is None or depth > 8:
            return None
        ds = [st for st in c.body for n in ast.walk(st) if isinstance(n, ast.Name) and n.id == a and isinstance(n.ctx, ast.Store)]
        if len(ds) > 1 or (ds and not (isinstance(ds[0], ast.Assign) and len(ds[0].targets) == 1 and isinstance(ds[0].value, ast.Constant))):
            bad(node, "class attribute %s.%s is not bound once, to a literal" % (cls, a))
        if ds:
            return ds[0].value.value
        for b in c.bases:
            r = attr(dotted(b), a, depth + 1)
            if r is not None:
                return r
        return None
    fmt, compact = attr(name, "word_fmt"), attr(name, "compact")
    if not isinstance(fmt, str) or not isinstance(compact, bool):
        return None
    if any(isinstance(n, ast.Attribute) and n.attr in ("word_fmt", "compact") and not isinstance(n.ctx, ast.Load) for n in ast.walk(self.mod.tree)):
        bad(node, "a dialect attribute is assigned somewhere in the module")
    cn = self.mangle(None, name)
    self.consts.setdefault(cn, "(* %s: class %s, line %d: (word_fmt, compact) of that dialect class *)\nDefinition %s : string * bool := (%s, %s).\n"
                           % (self.fn, name, binds[0].lineno, cn, srcc_strlit(fmt, node), "true" if compact else "false"))
    return ("cls6", cn)


Translator.srcc_class_const = srcc_class_const


def srcc_normalize(f):
    """a copy of function f in which a `for` target that the loop body assigns again, or that several loops of f share, is renamed:
    `for x in e: body` -> `for x__item in e: x = x__item; body` (the same behaviour as long as x is not read after the loop
    before being assigned again -- such a read finds x unbound and is rejected; the translator's loop variable must not be rebound)"""
    import copy
    f = copy.deepcopy(f)
    targets = [n.target.id for n in ast.walk(f) if isinstance(n, ast.For) and isinstance(n.target, ast.Name)]
    seen = {}
    for n in sorted((n for n in ast.walk(f) if isinstance(n, ast.For)), key=lambda n: (n.lineno, n.col_offset)):
        if isinstance(n, ast.For) and isinstance(n.target, ast.Name) and (n.target.id in assigned_names(n.body) or targets.count(n.target.id) > 1):
            x = n.target.id
            seen[x] = seen.get(x, 0) + 1
            item = x + "__item" + ("%d" % seen[x] if seen[x] > 1 else "")
            n.target = ast.copy_location(ast.Name(id=item, ctx=ast.Store()), n.target)
            first = ast.Assign(targets=[ast.Name(id=x, ctx=ast.Store())], value=ast.Name(id=item, ctx=ast.Load()))
            n.body.insert(0, ast.fix_missing_locations(ast.copy_location(first, n.body[0])))

    # `for x in range(..)` whose variable the body reads: the range as a list (the translator's own range loop has no variable)
    for n in ast.walk(f):
        if (isinstance(n, ast.For) and isinstance(n.target, ast.Name) and isinstance(n.iter, ast.Call) and isinstance(n.iter.func, ast.Name)
                and n.iter.func.id == "range" and not n.iter.keywords
                and any(isinstance(x, ast.Name) and x.id in (n.target.id, n.target.id.split("__item")[0]) and isinstance(x.ctx, ast.Load)
                        for st in n.body for x in ast.walk(st))):
            n.iter = ast.fix_missing_locations(ast.copy_location(ast.Call(func=ast.Name(id="list", ctx=ast.Load()), args=[n.iter], keywords=[]), n.iter))
    # a comprehension variable (its own scope in Python 3) that is also bound elsewhere in f is renamed inside the comprehension
    bound = [n.id for n in ast.walk(f) if isinstance(n, ast.Name) and isinstance(n.ctx, ast.Store)] + [a.arg for a in f.args.args]
    k = 0
    for comp in sorted((n for n in ast.walk(f) if isinstance(n, ast.ListComp)), key=lambda n: (n.lineno, n.col_offset)):
        if len(comp.generators) == 1 and isinstance(comp.generators[0].target, ast.Name) and bound.count(comp.generators[0].target.id) > 1:
            x = comp.generators[0].target.id
            inner = [n for n in ast.walk(comp) if isinstance(n, ast.ListComp) and n is not comp]
            if inner or any(isinstance(n, ast.Name) and n.id == x for n in ast.walk(comp.generators[0].iter)):
                continue
            k += 1
            for n in ast.walk(comp):
                if isinstance(n, ast.Name) and n.id == x:
                    n.id = "%s__c%d" % (x, k)

    def ispop(c):
        return (isinstance(c, ast.Call) and isinstance(c.func, ast.Attribute) and c.func.attr == "pop" and isinstance(c.func.value, ast.Name)
                and not c.args and not c.keywords)

    def hoist_pop(stmts):
        """`x = g(l.pop())` (the pop is the only argument of the outermost call, hence evaluated first) ->
        `l__popped = l.pop(); x = g(l__popped)`"""
        out = []
        for st in stmts:
            for field in ("body", "orelse", "finalbody"):
                if isinstance(getattr(st, field, None), list) and not isinstance(st, (ast.FunctionDef, ast.ClassDef)):
                    setattr(st, field, hoist_pop(getattr(st, field)))
            for h in getattr(st, "handlers", []):
                h.body = hoist_pop(h.body)
            v = st.value if isinstance(st, ast.Assign) else None
            if isinstance(v, ast.Call) and isinstance(v.func, ast.Name) and len(v.args) == 1 and not v.keywords and ispop(v.args[0]):
                tmp = v.args[0].func.value.id + "__popped"
                out.append(ast.fix_missing_locations(ast.copy_location(
                    ast.Assign(targets=[ast.Name(id=tmp, ctx=ast.Store())], value=v.args[0]), st)))
                v.args[0] = ast.copy_location(ast.Name(id=tmp, ctx=ast.Load()), v.args[0])
            out.append(st)
        return out
    f.body = hoist_pop(f.body)
    return f


_module_function0 = Module.function


def _srcc_module_function(self, name):
    f = _module_function0(self, name)
    if self.fn in [u[0] for u in SRCC_UNITS]:
        cache = self.__dict__.setdefault("srcc_norm", {})
        if name not in cache:
            cache[name] = srcc_normalize(f)
        return cache[name]
    return f


Module.function = _srcc_module_function


# ---- expressions
def srcc_pure(self, node, env, want=None):
    """(type, term) of an expression that must not raise (it sits where nothing can be hoisted)"""
    self.nohoist += 1
    try:
        r = self.ex(node, env)
    finally:
        self.nohoist -= 1
    if want is not None and r[0] != want:
        bad(node, "%s expression expected, got %s" % (want, show(r[0])))
    return r


def srcc_is_strlist(ty):
    return is_list(ty) and ty[1].find().t == "str"


def srcc_format(self, node, env):
    """'<literal format>' % e with the conversions %d %x %.4x %s (%r only inside exception messages, which are not translated):
    e an int / text for one conversion, a tuple display of as many items as conversions, or a sequence-valued expression
    (struct.unpack result, tuple(l)) whose length is tested: TypeError when it is not the number of conversions"""
    fmt = node.left.value
    parts = re.split(r"(%\.4x|%d|%x|%s)", fmt)
    specs = parts[1::2]
    if "%" in "".join(parts[0::2]) or not specs:
        bad(node, "format string %r" % fmt)
    if isinstance(node.right, ast.Tuple):
        items = [self.ex(x, env) for x in node.right.elts]
        seq = None
    else:
        ty, t = self.ex(node.right, env)
        if ty in ("int", "str"):
            items, seq = [(ty, t)], None
        elif is_list(ty) and ty[1].find().t in ("int", "str"):
            names = [self.fresh() for _ in specs]
            items, seq = [(ty[1].find().t, x) for x in names], (t, names)
        else:
            bad(node, "format argument of kind %s" % show(ty))
    if len(items) != len(specs):
        bad(node, "format string %r with %d arguments" % (fmt, len(items)))
    pieces = []
    for lit, spec, (ty, t) in zip(parts[0::2], specs, items):
        if lit:
            pieces.append(srcc_strlit(lit, node))
        if spec == "%s":
            if ty != "str":
                bad(node, "%%s of %s" % show(ty))
            pieces.append(t)
        else:
            if ty != "int":
                bad(node, "%s of %s" % (spec, show(ty)))
            pieces.append("(%s %s)" % ({"%d": "fmt_d", "%x": "fmt_x", "%.4x": "py_fmt_x4"}[spec], t))
    if parts[-1]:
        pieces.append(srcc_strlit(parts[-1], node))
    term = pieces[-1]
    for p in reversed(pieces[:-1]):
        term = "(String.append %s %s)" % (p, term)
    if seq is None:
        return ("str", term)
    return ("out", "str", "(match %s with [%s] => Ok %s | _ => Raise TypeError end)" % (seq[0], "; ".join(seq[1]), term))


def srcc_bound(self, b, env):
    """a slice bound: absent, an int, or a None-or-int local (None = absent, as in Python)"""
    if b is None:
        return "None"
    ty, t = self.ex(b, env)
    if ty == "optint":
        return t
    if ty != "int":
        bad(b, "slice bound of kind %s" % show(ty))
    return "(Some %s)" % t


def srcc_optlocals(self):
    """the locals of this function that hold None or an int: assigned the literal None somewhere, assigned something else
    somewhere, and compared with None (`is None` / `is not None`) somewhere; not parameters"""
    if "srcc_optlocals_" not in self.__dict__:
        none, other, tested = set(), set(), set()
        for n in ast.walk(self.f):
            if isinstance(n, ast.Assign) and len(n.targets) == 1 and isinstance(n.targets[0], ast.Name):
                (none if isinstance(n.value, ast.Constant) and n.value.value is None else other).add(n.targets[0].id)
            if (isinstance(n, ast.Compare) and len(n.ops) == 1 and isinstance(n.ops[0], (ast.Is, ast.IsNot)) and isinstance(n.left, ast.Name)
                    and isinstance(n.comparators[0], ast.Constant) and n.comparators[0].value is None):
                tested.add(n.left.id)
        self.srcc_optlocals_ = (none & other & tested) - {a.arg for a in self.f.args.args}
    return self.srcc_optlocals_


def srcc_rhs(self, node, env):
    if isinstance(node, ast.Name) and node.id not in env and node.id not in self.attrs and not node.id.startswith("self"):
        if node.id in SRCC_TABLE_TERM and node.id in UNIT_TABLES.get(self.tr.out, {}) and self.mod.toplevel(node.id):
            return (parse_type(UNIT_TABLES[self.tr.out][node.id]), SRCC_TABLE_TERM[node.id])
        return self.tr.srcc_module_const(node.id, node) or self.tr.srcc_core_const(node.id, node) or self.tr.srcc_class_const(node.id, node)
    if isinstance(node, ast.Attribute) and isinstance(node.value, ast.Name) and env.get(node.value.id, ("",))[0] == "cls6" and node.attr in (
            "word_fmt", "compact"):
        t = env[node.value.id][1]                           # an IPv6 dialect class: the pair (word_fmt, compact)
        return ("str", "(fst %s)" % t) if node.attr == "word_fmt" else ("bool", "(snd %s)" % t)
    if isinstance(node, ast.BinOp) and isinstance(node.op, ast.Mod) and not isinstance(node.left, ast.Constant):
        snap, pre0 = self.snapshot(), list(self.pre)
        try:
            ta, a = self.ex(node.left, env)
        except Untranslatable:
            ta = None
        if ta == "str":                                     # <format held in a variable> % <int>: py_format1 reads the format text
            return ("out", "str", "(py_format1 %s %s)" % (a, self.int_(node.right, env)))
        self.restore(snap)
        self.pre = pre0
        return None
    if isinstance(node, ast.Constant) and isinstance(node.value, str) and node.value == "":
        return ("str", "\"\"%string")
    if isinstance(node, ast.List) and not node.elts:
        cell = Cell()                                       # []: its element type is written out once it is known (Fn.text)
        cells = self.__dict__.setdefault("srcc_cells", [])
        cells.append(cell)
        return (("list", cell), "(@nil #CELL%d#)" % (len(cells) - 1))
    if isinstance(node, ast.BinOp) and isinstance(node.op, ast.Mod) and isinstance(node.left, ast.Constant) and isinstance(node.left.value, str):
        return srcc_format(self, node, env)
    if isinstance(node, ast.Tuple) and node.elts and isinstance(node.ctx, ast.Load):
        items = [self.ex(x, env) for x in node.elts]       # a tuple display of Coq values
        if any(not is_value(ty) for ty, _ in items):
            bad(node, "tuple component of kind %s" % [show(ty) for ty, _ in items if not is_value(ty)][0])
        return (("tup", tuple(ty for ty, _ in items)), tuple_term([t for _, t in items]))
    if (isinstance(node, ast.BinOp) and isinstance(node.op, ast.Mult) and isinstance(node.right, ast.List) and len(node.right.elts) == 1
            and isinstance(node.right.elts[0], ast.Constant) and node.right.elts[0].value is None):
        # n * [None]: a list of n slots that hold None or text
        return (("list", Cell("optstr")), "(List.repeat (@None string) (Z.to_nat %s))" % self.int_(node.left, env))
    if isinstance(node, ast.BinOp) and isinstance(node.op, (ast.Add, ast.Mult)):
        snap, pre0 = self.snapshot(), list(self.pre)
        (ta, a), (tb, b) = self.ex(node.left, env), self.ex(node.right, env)
        if isinstance(node.op, ast.Add) and isinstance(ta, str) and isinstance(tb, str) and {ta, tb} == {"int", "optint"}:
            h = self.fresh()                                # None + int is a TypeError
            self.hoist(node, ("bind", h, "(match %s with Some h0 => Ok h0 | None => Raise TypeError end)" % (a if ta == "optint" else b)))
            return ("int", "(%s + %s)" % ((h, b) if ta == "optint" else (a, h)))
        if isinstance(node.op, ast.Add) and ta == tb and ta in ("str", "bytes"):
            return (ta, "(String.append %s %s)" % (a, b) if ta == "str" else "(%s ++ %s)" % (a, b))
        if isinstance(node.op, ast.Mult) and ta in ("str", "bytes") and tb == "int":
            return (ta, "(%s %s %s)" % ("py_str_mul" if ta == "str" else "py_bytes_mul", a, b))
        self.restore(snap)
        self.pre = pre0
        return None
    if isinstance(node, ast.BoolOp) and len(node.values) == 2 and self.nohoist == 0:
        # `a and b` / `a or b` where evaluating b can raise: b is evaluated only when a does not decide
        snap, pre0 = self.snapshot(), list(self.pre)
        try:
            _rhs0(self, node, env)
            simple = True
        except Untranslatable:
            simple = False
        self.restore(snap)
        self.pre = pre0
        if not simple:
            a = self.bool_(node.values[0], env)
            saved, self.pre = self.pre, []
            try:
                b = self.bool_(node.values[1], env)
            except Untranslatable:
                self.pre = saved
                self.restore(snap)
                self.pre = pre0
                return None
            inner, self.pre = self.pre, saved
            body = self.render(self.wrap(inner, ("ret", "bool", b, False)), "     ", True)
            isand = isinstance(node.op, ast.And)
            return ("out", "bool", "(if %s then\n     %s\n   else %s)" % (a, body if isand else "Ok true", "Ok false" if isand else "(%s)" % body))
    if isinstance(node, ast.BoolOp) and isinstance(node.op, ast.Or) and len(node.values) == 2:
        snap, pre0 = self.snapshot(), list(self.pre)
        ta, a = self.ex(node.values[0], env)
        if ta == "str":
            return ("str", "(py_str_or %s %s)" % (a, srcc_pure(self, node.values[1], env, "str")[1]))
        self.restore(snap)
        self.pre = pre0
        return None
    if isinstance(node, ast.Compare) and len(node.ops) == 1 and isinstance(node.ops[0], (ast.In, ast.NotIn)):
        snap, pre0 = self.snapshot(), list(self.pre)
        try:
            (ta, a), (tb, b) = self.ex(node.left, env), self.ex(node.comparators[0], env)
        except Untranslatable:
            ta = tb = None
        if ta == "str" and tb == "str":         # text in text: substring test
            lit = node.left.value if isinstance(node.left, ast.Constant) else None
            t = ("(py_contains_dc %s)" % b if lit == "::" else "(contains_char %s %s)" % (srcc_charlit(lit, node), b)
                 if isinstance(lit, str) and len(lit) == 1 and 32 <= ord(lit) < 127 and lit != '"' else "(py_str_in %s %s)" % (a, b))
            return ("bool", t if isinstance(node.ops[0], ast.In) else "(negb %s)" % t)
        self.restore(snap)
        self.pre = pre0
        return None
    if isinstance(node, ast.Compare) and len(node.ops) == 1 and isinstance(node.ops[0], (ast.Is, ast.IsNot)) and isinstance(
            node.comparators[0], ast.Constant) and node.comparators[0].value is None and isinstance(node.left, ast.Name):
        ty, t = env.get(node.left.id, (None, None))
        if ty in ("optint", "optstr"):
            some = isinstance(node.ops[0], ast.IsNot)
            return ("bool", "(match %s with Some _ => %s | None => %s end)" % (t, "true" if some else "false", "false" if some else "true"))
        return None
    if isinstance(node, ast.Subscript):
        return srcc_subscript(self, node, env)
    if isinstance(node, ast.Call):
        return srcc_call(self, node, env)
    if isinstance(node, ast.ListComp):
        return srcc_listcomp(self, node, env)
    return None


def srcc_subscript(self, node, env):
    sl = node.slice
    if (isinstance(node.value, ast.Call) and dotted(node.value.func) == "globals" and not node.value.args and not node.value.keywords
            and "globals" not in env and not self.mod.toplevel("globals") and isinstance(sl, ast.Constant) and isinstance(sl.value, str)):
        r = self.tr.srcc_module_const(sl.value, node)       # globals()['name']: the module constant, also when a local shadows it
        if r is None:
            bad(node, "globals()[%r] is not a module constant the translator reads" % sl.value)
        return r
    snap, pre0 = self.snapshot(), list(self.pre)
    try:
        ty, t = self.ex(node.value, env)
    except Untranslatable:
        self.restore(snap)
        self.pre = pre0
        return None
    if isinstance(sl, ast.Slice):
        if sl.step is not None:
            return None
        if ty == "str" and sl.upper is None and const_int(sl.lower) is not None and const_int(sl.lower) >= 0:
            self.restore(snap)
            self.pre = pre0
            return None                                     # s[k:] with a literal k >= 0: py_str_from, as before
        if ty == "str":
            return ("str", "(py_str_slice %s %s %s)" % (srcc_bound(self, sl.lower, env), srcc_bound(self, sl.upper, env), t))
        if ty == "bytes" or is_list(ty):
            return (ty, "(py_slice %s %s %s)" % (srcc_bound(self, sl.lower, env), srcc_bound(self, sl.upper, env), t))
        self.restore(snap)
        self.pre = pre0
        return None
    if is_list(ty) and is_value(ty[1].find().t or "?"):
        k = const_int(sl)
        if k is not None and k >= 0:
            return ("out", ty[1].find().t, "(py_seq_item %d%%nat %s)" % (k, t))
        return ("out", ty[1].find().t, "(py_list_item %s %s)" % (t, srcc_pure(self, sl, env, "int")[1]))
    if ty == "str":
        i = srcc_pure(self, sl, env, "int")[1]              # s[i]: the one-character string, IndexError outside
        return ("out", "str", "(py_list_item (py_list_of_str %s) %s)" % (t, i))
    self.restore(snap)
    self.pre = pre0
    return None


def srcc_lib(self, f, names, module, env):
    """is call target f the library function module.<one of names>: `_alias.name` for `import module as _alias`, or a name bound
    by `from module import name [as alias]` (not shadowed by a local)?  -> the function's name, else None"""
    if isinstance(f, ast.Attribute) and isinstance(f.value, ast.Name) and f.attr in names and f.value.id not in env:
        imps = [a for n in self.mod.tree.body if isinstance(n, ast.Import) for a in n.names if (a.asname or a.name) == f.value.id]
        if len(imps) == 1 and imps[0].name == module and sum(self.mod.toplevel(f.value.id) for _ in [0]) and not any(
                isinstance(n, ast.Name) and n.id == f.value.id and isinstance(n.ctx, ast.Store) for n in ast.walk(self.mod.tree)):
            return f.attr
    if isinstance(f, ast.Name) and f.id not in env and self.mod.imports.get(f.id, "").rpartition(".")[0] == module:
        real = self.mod.imports[f.id].rpartition(".")[2]
        binds = [n for n in ast.walk(self.mod.tree) if (isinstance(n, ast.Name) and n.id == f.id and isinstance(n.ctx, ast.Store))
                 or (isinstance(n, (ast.FunctionDef, ast.ClassDef)) and n.name == f.id)]
        if real in names and not binds:
            return real
    return None


def srcc_args(self, node, env, elem="int"):
    """the positional arguments of a call as one list term: plain arguments, or one `*l` argument for a list l"""
    if node.keywords:
        bad(node, "keyword arguments")
    if len(node.args) == 1 and isinstance(node.args[0], ast.Starred):
        ty, t = self.ex(node.args[0].value, env)
        if not (is_list(ty) and ty[1].find().t == elem):
            bad(node, "*argument of kind %s" % show(ty))
        return t
    if any(isinstance(a, ast.Starred) for a in node.args):
        bad(node, "mixed positional and * arguments")
    items = [self.ex(a, env) for a in node.args]
    if any(ty != elem for ty, _ in items):
        bad(node, "argument of kind %s" % [show(ty) for ty, _ in items if ty != elem][0])
    return "[%s]" % "; ".join(t for _, t in items)


def srcc_callfn(self, node, name, env):
    """call of a translated module-level function: omitted trailing parameters take the callee's (constant) defaults; an int /
    text handed to a parameter declared optint / optstr is wrapped in Some, None is None"""
    t, real = self.tr.owner_of(name)
    d = t.get(None, real, node)
    if node.keywords or any(isinstance(a, ast.Starred) for a in node.args) or len(node.args) > len(d.params):
        bad(node, "unsupported argument list for %s" % d.cname)
    dflts = [None] * (len(d.params) - len(d.f.args.defaults)) + list(d.f.args.defaults)
    args = []
    for i, (_, pty) in enumerate(d.params):
        a = node.args[i] if i < len(node.args) else dflts[i]
        if a is None:
            bad(node, "missing argument %d of %s" % (i + 1, d.cname))
        if isinstance(a, ast.Constant) and a.value is None:
            if pty not in ("optint", "optstr", "optdialect", "optcls6"):
                bad(node, "None for a parameter of %s declared %s" % (d.cname, show(pty)))
            args.append((pty, "None"))
            continue
        ty, term = self.ex(a, env) if i < len(node.args) else self.ex(a, {k: v for k, v in env.items() if k.startswith("@")})
        if (pty, ty) in (("optint", "int"), ("optstr", "str"), ("optcls6", "cls6")):
            ty, term = pty, "(Some %s)" % term
        args.append((ty, term))
    if FILES.index(d.file) > FILES.index(self.file):
        bad(node, "%s lives in %s, which comes after %s" % (d.cname, d.file, self.file))
    self.deps.add((None, name))
    self.depfns.append(d)
    for (ty, _), (_, pty) in zip(args, d.params):
        unify(node, ty, pty, "argument of %s" % d.cname)
    if d.optional or d.mutating:
        bad(node, "use of %s, which may return None or assigns state" % d.cname)
    if d.__dict__.get("srcc_be"):
        self.srcc_be = True
    term = "(%s)" % " ".join([d.cname] + (["be"] if d.__dict__.get("srcc_be") else []) + [x for _, x in args])
    return ("out", d.kind, term) if d.outcome else (d.kind, term)


def srcc_import_only(self, name, real, modules):
    """is every binding of `name` in this module an import of `real` from one of `modules` (at any depth: the imports sit under
    `if` / `try`), and is there at least one?"""
    binds = [n for n in ast.walk(self.mod.tree) if (isinstance(n, (ast.FunctionDef, ast.ClassDef)) and n.name == name)
             or (isinstance(n, ast.Name) and n.id == name and isinstance(n.ctx, ast.Store)) or (isinstance(n, ast.arg) and n.arg == name)]
    imps = [(st.module, a) for st in ast.walk(self.mod.tree) if isinstance(st, ast.ImportFrom) for a in st.names if (a.asname or a.name) == name]
    other = [a for st in ast.walk(self.mod.tree) if isinstance(st, ast.Import) for a in st.names if (a.asname or a.name.split(".")[0]) == name]
    return bool(imps) and not binds and not other and all(m in modules and a.name == real for m, a in imps)


def srcc_socket_call(self, node, env):
    """_inet_aton(s) / _inet_pton(AF_INET | AF_INET6, s) / _inet_ntop(AF_INET6, p): the module binds these names at import time
    to the functions of `socket` (platform) or of netaddr.fbsocket (fallback).  Which of the two is a parameter of the model:
    the generated definition takes the back-end `be` and the call becomes the prelude symbol for that function and family
    (SrcPreludeText: the named oracle of Model/IpText.v for Platform, the hand model of Model/FbSocket.v for Fallback)."""
    f = node.func.id
    real, fams = SRCC_SOCKET[f]
    if not srcc_import_only(self, f, real, SRCC_SOCKET_MODULES) or node.keywords:
        bad(node, "%s is not bound only by imports of %s from %s" % (f, real, " / ".join(SRCC_SOCKET_MODULES)))
    args = list(node.args)
    fam = None
    if None not in fams:
        if not (args and isinstance(args[0], ast.Name) and args[0].id in fams and args[0].id not in env
                and srcc_import_only(self, args[0].id, args[0].id, SRCC_SOCKET_MODULES)):
            bad(node, "%s with a first argument other than %s" % (f, " / ".join(fams)))
        fam, args = args[0].id, args[1:]
    sym, takes_be = fams[fam]
    if len(args) != 1:
        bad(node, "%s argument list" % f)
    ty, t = self.ex(args[0], env)
    want = "bytes" if real == "inet_ntop" else "str"
    if ty != want:
        bad(node, "%s of %s" % (f, show(ty)))
    if takes_be:
        self.srcc_be = True
    return ("out", "str" if real == "inet_ntop" else "bytes", "(%s%s %s)" % (sym, " be" if takes_be else "", t))


def srcc_call(self, node, env):
    f = node.func
    lib = srcc_lib(self, f, ("pack", "unpack"), "struct", env)
    if lib == "pack":
        if not node.args:
            bad(node, "struct.pack without a format")
        sizes = srcc_struct_sizes(node.args[0])
        rest = ast.copy_location(ast.Call(func=f, args=node.args[1:], keywords=node.keywords), node)
        return ("out", "bytes", "(py_struct_pack %s %s)" % (srcc_nats(sizes), srcc_args(self, rest, env)))
    if lib == "unpack":
        if len(node.args) != 2 or node.keywords:
            bad(node, "struct.unpack argument list")
        sizes = srcc_struct_sizes(node.args[0])
        ty, t = self.ex(node.args[1], env)
        if ty != "bytes":
            bad(node, "struct.unpack of %s" % show(ty))
        return ("out", ("list", Cell("int")), "(py_struct_unpack %s %s)" % (srcc_nats(sizes), t))
    if isinstance(f, ast.Name) and f.id in SRCC_SOCKET and f.id not in env:
        return srcc_socket_call(self, node, env)
    if (isinstance(f, ast.Name) and f.id == "_is_str" and f.id not in env and len(node.args) == 1 and not node.keywords
            and isinstance(node.args[0], ast.Name) and env.get(node.args[0].id, ("",))[0] in ("str", "bytes", "int")
            and self.mod.imports.get("_is_str") == "netaddr.compat._is_str" and compat_lambda_isinstance("_is_str")):
        return ("bool", "false" if env[node.args[0].id][0] == "int" else "true")      # compat: isinstance(x, (str, bytes))
    if isinstance(f, ast.Name) and f.id not in env and self.tr.owner_of(f.id) is not None:
        return srcc_callfn(self, node, f.id, env)
    isrange = lambda c: (isinstance(c, ast.Call) and isinstance(c.func, ast.Name) and not c.keywords and 1 <= len(c.args) <= 3 and (
        (c.func.id == "range" and "range" not in env and not self.mod.toplevel("range"))
        or (c.func.id == "_range" and "_range" not in env and self.mod.imports.get("_range") == "netaddr.compat._range")))
    if isrange(node) and node.func.id == "_range" or (self.builtin_call(node, "list", env, 1) and isrange(node.args[0]) and node.args[0].func.id == "range"):
        # list(range(a, b, c)) / compat._range(a, b, c) (= list(range(..))): the ints a, a + c, .. before b; the step is a literal != 0
        c = node if node.func.id == "_range" else node.args[0]
        xs = [self.int_(a, env) for a in c.args]
        step = const_int(c.args[2]) if len(c.args) == 3 else 1
        if not step:
            bad(node, "range() with a step that is no non-zero literal")
        a, b = (xs[0], xs[1]) if len(xs) >= 2 else ("0", xs[0])
        return (("list", Cell("int")), "(py_range %s %s %s)" % (a, b, "(%d)" % step if step < 0 else "%d" % step))
    if self.builtin_call(node, "list", env, 1):
        snap, pre0 = self.snapshot(), list(self.pre)
        ty, t = self.ex(node.args[0], env)
        if is_list(ty):
            return (ty, t)                                  # list(<tuple or list>): a new list with the same items
        if ty == "str":
            return (("list", Cell("str")), "(py_list_of_str %s)" % t)
        self.restore(snap)
        self.pre = pre0
        return None
    if self.builtin_call(node, "len", env, 1):
        snap, pre0 = self.snapshot(), list(self.pre)
        ty, t = self.ex(node.args[0], env)
        if ty == "bytes":
            return ("int", "(Z.of_nat (List.length %s))" % t)
        self.restore(snap)
        self.pre = pre0
        return None
    if self.builtin_call(node, "int", env, 1) or (self.builtin_call(node, "int", env, 2) and const_int(node.args[1]) in (10, 16)):
        snap, pre0 = self.snapshot(), list(self.pre)
        ty, t = self.ex(node.args[0], env)
        if ty == "str":
            return ("out", "int", "(py_int_base_o %d %s)" % (const_int(node.args[1]) if len(node.args) == 2 else 10, t))
        self.restore(snap)
        self.pre = pre0
        return None
    if (isinstance(f, ast.Attribute) and f.attr == "encode" and not node.args and not node.keywords and isinstance(f.value, ast.Constant)
            and isinstance(f.value.value, str) and all(ord(c) < 128 for c in f.value.value)):
        return ("bytes", "[%s]" % "; ".join("%d" % ord(c) for c in f.value.value))      # '<ASCII literal>'.encode(): its byte values
    if isinstance(f, ast.Attribute) and f.attr in ("join", "split", "encode") and not node.keywords and not (
            isinstance(f.value, ast.Name) and f.value.id not in env and self.tr.srcc_module_const(f.value.id, node) is None):
        ty, t = self.ex(f.value, env)
        if ty != "str":
            bad(node, "%s() on %s" % (f.attr, show(ty)))
        if f.attr == "encode" and not node.args and isinstance(f.value, ast.Constant):
            return ("bytes", "(py_encode %s)" % t)          # '<printable ASCII literal>'.encode(): its bytes
        if f.attr == "join" and len(node.args) == 1:
            aty, a = self.ex(node.args[0], env)
            if is_list(aty) and aty[1].find().t == "optstr":
                return ("out", "str", "(py_join_opt %s %s)" % (t, a))      # TypeError if an item is None
            if not srcc_is_strlist(aty):
                bad(node, "join() of %s" % show(aty))
            return ("str", "(join %s %s)" % (t, a))
        if f.attr == "split" and len(node.args) == 1:
            sep = node.args[0]
            if not (isinstance(sep, ast.Constant) and isinstance(sep.value, str) and sep.value):
                bad(node, "split() by something other than a non-empty text literal")
            if len(sep.value) == 1:
                return (("list", Cell("str")), "(split %s %s)" % (srcc_charlit(sep.value, node), t))
            if sep.value == "::":
                return (("list", Cell("str")), "(py_split_dc %s)" % t)
            return (("list", Cell("str")), "(py_split %s %s)" % (srcc_strlit(sep.value, node), t))
        bad(node, "%s() with an unsupported argument list" % f.attr)
    if isinstance(f, ast.Name) and f.id == "_bytes_join" and f.id not in env and self.mod.imports.get(f.id) == "netaddr.compat._bytes_join" \
            and len(node.args) == 1 and not node.keywords:
        ty, t = self.ex(node.args[0], env)                  # compat: _bytes_join = bytes().join
        if not (is_list(ty) and ty[1].find().t == "bytes"):
            bad(node, "_bytes_join of %s" % show(ty))
        return ("bytes", "(py_bytes_join %s)" % t)
    return None


def srcc_charlit(c, node=None):
    if not (32 <= ord(c) < 127) or c == '"':
        bad(node, "character literal %r" % c)
    return "\"%s\"%%char" % c


def srcc_listcomp(self, node, env):
    """[e for x in xs] (one generator, no condition, fresh x) -> map (fun x => e) xs, or py_map_o when e can raise (left to right,
    the first exception wins); xs a list, or text (its characters as one-character strings)"""
    g = node.generators
    if not (len(g) == 1 and not g[0].ifs and not g[0].is_async and isinstance(g[0].target, ast.Name) and g[0].target.id not in env):
        return None
    if self.builtin_call(g[0].iter, "range", env, 1):
        n = self.int_(g[0].iter.args[0], env)               # [e for _ in range(n)] with e not reading the variable: n copies
        if g[0].target.id in loaded_names([node.elt]):
            bad(node, "comprehension over range() that reads its variable")
        ety, e = srcc_pure(self, node.elt, env)
        if not is_value(ety):
            bad(node, "comprehension element of kind %s" % show(ety))
        return (("list", Cell(ety)), "(List.repeat %s (Z.to_nat %s))" % (e, n))
    ty, t = self.listexpr(g[0].iter, env)
    if ty == "str":
        ty, t = ("list", Cell("str")), "(py_list_of_str %s)" % t
    elem = ty[1].find().t if is_list(ty) else None
    if elem is None or not is_value(elem):
        bad(node, "comprehension over %s" % show(ty))
    cn, lenv = self.bind_local(g[0].target, g[0].target.id, elem, env, g[0].iter)
    saved, self.pre, nh = self.pre, [], self.nohoist
    self.nohoist = 0
    try:
        r = self.rhs(node.elt, lenv)
    finally:
        self.nohoist = nh
    inner, self.pre = self.pre, saved
    ety = r[1] if r[0] == "out" else r[0]
    if not is_value(ety):
        bad(node, "comprehension element of kind %s" % show(ety))
    if r[0] != "out" and not inner:
        return (("list", Cell(ety)), "(map (fun %s => %s) %s)" % (cn, r[1], t))
    body = self.render(self.wrap(inner, ("ret", ety, r[2] if r[0] == "out" else r[1], r[0] == "out")), "      ", True)
    return ("out", ("list", Cell(ety)), "(py_map_o (fun %s =>\n      %s) %s)" % (cn, body, t))


_rhs0 = Fn.rhs


def _srcc_rhs(self, node, env):
    if srcc_on(self):
        r = srcc_rhs(self, node, env)
        if r is not None:
            self.size += 1
            return r
    return _rhs0(self, node, env)


Fn.rhs = _srcc_rhs
_bool0 = Fn.bool_


def _srcc_bool(self, node, env):
    """truth value of an int (`while word:`) and of text"""
    if srcc_on(self) and not isinstance(node, (ast.Compare, ast.BoolOp)) and not (isinstance(node, ast.UnaryOp) and isinstance(node.op, ast.Not)):
        snap, pre0 = self.snapshot(), list(self.pre)
        try:
            ty, t = self.ex(node, env)
        except Untranslatable:
            ty = None
        if ty == "int":
            return "(negb (%s =? 0))" % t
        if ty == "str":
            return "(negb (String.eqb %s \"\"%%string))" % t
        self.restore(snap)
        self.pre = pre0
    return _bool0(self, node, env)


Fn.bool_ = _srcc_bool


# ---- statements
def srcc_try_except(self, s, rest, env, k, after):
    """Fn.try_except with loops allowed inside the protected body (no return / break / continue / nested try in it): the loops
    become Fixpoints as usual and their calls sit inside py_except"""
    h = s.handlers[0]
    if (s.orelse or s.finalbody or not isinstance(h.type, ast.Name) or h.type.id not in EXN or h.type.id in env
            or self.mod.toplevel(h.type.id) and h.type.id not in self.mod.imports or env["@mut"]):
        bad(s, "try statement other than `try: <assignments, if, raise, loops> / except E1: raise E2(..)`")
    if h.name and any(isinstance(n, ast.Name) and n.id == h.name for st in rest + after for n in ast.walk(st)):
        bad(s, "exception variable %s used after the handler" % h.name)
    e2 = self.block(h.body, {**env, "@break": None}, None, [])[1]
    names, ends = assigned_names(s.body), []

    def end(e):
        ends.append(e)
        return ("jret", e)
    body = self.block(s.body, env, end, rest + after)
    exported = [x for x in names if ends and all(x in e and is_value(e[x][0]) for e in ends)]
    for key, val in env.items():
        if not key.startswith("@") and key not in exported and any(e.get(key) != val for e in ends):
            if key in loaded_names(rest + after):
                bad(s, "%s is rebound inside try to something that is no Coq value and read afterwards" % key)
    env = dict(env)
    for x in names:
        env.pop(x, None)
    cns = []
    for x in exported:
        for e in ends[1:]:
            unify(s, e[x][0], ends[0][x][0], "ends of the try body")
        cn = self.coqname(s, x)
        cns.append(cn)
        env[x] = (ends[0][x][0], cn)
    env["@taint"] = frozenset().union(env["@taint"], *[e["@taint"] for e in ends]) - (set(names) - set(exported))

    def close(ir):
        if ir[0] == "jret" and isinstance(ir[1], dict):
            return ("jret", tuple_term([ir[1][x][1] for x in exported]))
        return tuple(close(x) if isinstance(x, tuple) and x and isinstance(x[0], str) else
                     [(kd, ns, close(sub)) for kd, ns, sub in x] if isinstance(x, list) else x for x in ir)
    return ("try", h.type.id, e2, pattern(cns), close(body), self.block(rest, env, k, after))


def srcc_try_all(self, s, rest, env, k, after):
    """try: body / except Exception: handler (or a bare `except:`), outside loops, no else / finally.  EVERY Python exception
    leaving the body reaches the handler (py_except_all / py_except_value: all exception classes of the model; the modelling
    devices OutOfFuel and Unsupported pass through).  Three shapes:
      (A) the handler is `raise E(..)`, every path of the body returns or raises  -> py_except_all E (body), the function's result;
      (B) the handler is `raise E(..)`, the body only assigns                       -> do <assigned> <- py_except_all E (body); rest;
      (C) the handler is `return <literal>` or assigns literals to names bound before the try, the body neither returns nor
          assigns a name that is read afterwards (other than those the handler assigns)
                                                                                   -> py_except_value <handler's values> (body)."""
    h = s.handlers[0]
    if s.orelse or s.finalbody or env["@mut"] or env["@break"] is not None or any(
            isinstance(n, (ast.Break, ast.Continue, ast.Try, ast.While, ast.For)) for st in s.body for n in ast.walk(st)):
        bad(s, "try / except Exception with else / finally / loops / nested try, or inside a loop")
    if h.name and any(isinstance(n, ast.Name) and n.id == h.name for st in h.body + rest + after for n in ast.walk(st)):
        bad(s, "exception variable %s is used" % h.name)
    has_ret = any(isinstance(n, ast.Return) for st in s.body for n in ast.walk(st))
    if len(h.body) == 1 and isinstance(h.body[0], ast.Raise):
        e2 = self.block(h.body, {**env, "@break": None}, None, [])[1]
        if has_ret:                                                                                   # (A)
            def falls(e):
                bad(s, "try body that returns on some paths and falls off its end on others")
            return ("xtry", "py_except_all %s" % e2, None, self.block(s.body, env, falls, []), None)
        names, ends = assigned_names(s.body), []                                                      # (B)

        def end(e):
            ends.append(e)
            return ("jret", e)
        body = self.block(s.body, env, end, rest + after)
        exported = [x for x in names if ends and all(x in e and is_value(e[x][0]) for e in ends) and x in loaded_names(rest + after)]
        for x in names:
            if x not in exported and x in loaded_names(rest + after):
                bad(s, "%s is assigned in the try body on some paths only (or to no Coq value) and read afterwards" % x)
        env = dict(env)
        for x in names:
            env.pop(x, None)
        cns = []
        for x in exported:
            for e in ends[1:]:
                unify(s, e[x][0], ends[0][x][0], "ends of the try body")
            cn = self.coqname(s, x)
            cns.append(cn)
            env[x] = (ends[0][x][0], cn)
        env["@taint"] = frozenset().union(env["@taint"], *[e["@taint"] for e in ends]) - (set(names) - set(exported))
        return ("xtry", "py_except_all %s" % e2, pattern(cns), srcc_close(body, exported), self.block(rest, env, k, after))
    if has_ret:
        bad(s, "try body with return and a handler that does not raise")
    lit = lambda v: isinstance(v, ast.Constant) and (isinstance(v.value, bool) or v.value is None or isinstance(v.value, (int, str)))
    names = assigned_names(s.body)
    if len(h.body) == 1 and isinstance(h.body[0], ast.Return) and h.body[0].value is not None and lit(h.body[0].value):   # (C), return
        for x in names:
            if x in loaded_names(rest + after):
                bad(s, "%s is assigned in the try body and read afterwards" % x)
        ty, t = self.ex(h.body[0].value, env)
        self.lrets.append(ty)
        body = self.block(s.body, env, lambda e: ("ret", "@loop", "(inr tt)", False), rest + after)
        env = {key: val for key, val in env.items() if key not in names}
        hn = self.fresh()
        return ("xtry", "py_except_value (inl %s)" % t, hn, body, ("lmatch", hn, self.fresh(), "_", self.block(rest, env, k, after)))
    if h.body and all(isinstance(a, ast.Assign) and len(a.targets) == 1 and isinstance(a.targets[0], ast.Name) and lit(a.value) for a in h.body):
        hnames = [a.targets[0].id for a in h.body]                                                   # (C), assignments
        if len(set(hnames)) != len(hnames) or any(x not in env or not is_value(env[x][0]) for x in hnames):
            bad(s, "except handler assigns a name twice, or a name that is not bound (to a Coq value) before the try")
        for x in names:
            if x not in hnames and x in loaded_names(rest + after):
                bad(s, "%s is assigned in the try body and read afterwards" % x)
        hvals = []
        for a in h.body:
            ty, t = self.ex(a.value, env)
            unify(a, ty, env[a.targets[0].id][0], "value assigned by the handler")
            hvals.append(t)
        ends = []

        def end2(e):
            ends.append(e)
            return ("jret", e)
        body = self.block(s.body, env, end2, rest + after)
        for e in ends:
            for x in hnames:
                if x not in e:
                    bad(s, "%s may be unbound at the end of the try body" % x)
                unify(s, e[x][0], env[x][0], "value of %s at the end of the try body" % x)
        env2 = {key: val for key, val in env.items() if key not in names}
        cns = []
        for x in hnames:
            cn = self.coqname(s, x)
            cns.append(cn)
            env2[x] = (env[x][0], cn)
        return ("xtry", "py_except_value %s" % tuple_term(hvals), pattern(cns), srcc_close(body, hnames), self.block(rest, env2, k, after))
    bad(s, "except handler other than `raise E(..)`, `return <literal>` or assignments of literals")


def srcc_close(ir, exported):
    """the pending ends of a protected body become tuples of the exported variables"""
    if ir[0] == "jret" and isinstance(ir[1], dict):
        return ("jret", tuple_term([ir[1][x][1] for x in exported]))
    return tuple(srcc_close(x, exported) if isinstance(x, tuple) and x and isinstance(x[0], str) else
                 [(kd, ns, srcc_close(sub, exported)) for kd, ns, sub in x] if isinstance(x, list) else x for x in ir)


def srcc_stmt(self, s, rest, env, k, after):
    go = lambda e: self.block(rest, e, k, after)
    if isinstance(s, ast.Raise) and isinstance(s.exc, ast.Name) and env.get(s.exc.id, ("",))[0] == "cls" and env[s.exc.id][1] in EXN and not s.cause:
        if env["@mut"]:
            bad(s, "raise after a state assignment")
        return ("raise", env[s.exc.id][1])                  # raise <name bound to an exception object made before>
    if (isinstance(s, ast.Assign) and len(s.targets) == 1 and isinstance(s.targets[0], ast.Name) and isinstance(s.value, ast.Call)
            and isinstance(s.value.func, ast.Name) and s.value.func.id in EXN and s.value.func.id not in env
            and (not self.mod.toplevel(s.value.func.id) or s.value.func.id in self.mod.imports)):
        x = s.targets[0].id                                 # x = ValueError('..' % ..): the exception object; only its class is kept
        if x in ("self", "_ipv4", "_ipv6") or any(isinstance(n, ast.Call) and not (isinstance(n.func, ast.Name) and n.func.id == "type")
                                                  for a in s.value.args for n in ast.walk(a)) or s.value.keywords:
            bad(s, "exception object built from something other than a message")
        self.coqname(s.targets[0], x)
        env = dict(env)
        env[x] = ("cls", s.value.func.id)
        return go(env)
    if (isinstance(s, ast.Assign) and len(s.targets) == 1 and isinstance(s.targets[0], ast.Tuple) and 2 <= len(s.targets[0].elts) <= 4
            and all(isinstance(x, ast.Name) and x.id != "_" for x in s.targets[0].elts)):
        snap, pre0 = self.snapshot(), list(self.pre)
        ty, t = self.ex(s.value, env)
        elem = ty[1].find().t if is_list(ty) else None
        if elem is not None and is_value(elem):
            # a, b = <list>: ValueError unless the list has exactly that many items
            pre, names = self.take_pre(), []
            for x in s.targets[0].elts:
                cn, env = self.bind_local(x, x.id, elem, env, s.value)
                names.append(cn)
            return self.wrap(pre, ("bind", pattern(names), "(match %s with [%s] => Ok %s | _ => Raise ValueError end)" % (
                t, "; ".join(names), tuple_term(names)), go(env)))
        self.restore(snap)
        self.pre = pre0
    if isinstance(s, ast.Try) and len(s.handlers) == 1 and (s.handlers[0].type is None or (
            isinstance(s.handlers[0].type, ast.Name) and s.handlers[0].type.id == "Exception" and "Exception" not in env
            and not self.mod.toplevel("Exception"))):
        return srcc_try_all(self, s, rest, env, k, after)
    if isinstance(s, ast.Expr) and isinstance(s.value, ast.Call) and isinstance(s.value.func, ast.Name) and s.value.func.id in SRCC_SOCKET:
        r = self.rhs(s.value, env)                          # a socket call made for its exception only: the result is dropped
        pre = self.take_pre()
        return self.wrap(pre, ("bind", "_", r[2], go(env)))
    if (isinstance(s, ast.If) and isinstance(s.test, ast.Call) and dotted(s.test.func) == "isinstance" and len(s.test.args) == 2
            and not s.test.keywords and isinstance(s.test.args[0], ast.Name) and env.get(s.test.args[0].id, ("",))[0] == "str"
            and dotted(s.test.args[1]) == "_str_type" and "_str_type" not in env
            and self.mod.imports.get("_str_type") == "netaddr.compat._str_type" and compat_ok("_str_type")):
        return self.block(s.body + rest, env, k, after)      # isinstance(<text>, _str_type): compat binds _str_type = str -- true
    if (isinstance(s, ast.Try) and len(s.handlers) == 1 and len(s.handlers[0].body) == 1 and isinstance(s.handlers[0].body[0], ast.Raise)
            and any(isinstance(n, (ast.For, ast.While)) for st in s.body for n in ast.walk(st))
            and not any(isinstance(n, (ast.Return, ast.Break, ast.Continue, ast.Try)) for st in s.body for n in ast.walk(st))):
        # try: <assignments, if, raise, loops without return / break / continue> / except E1: raise E2: as try_except; the loops
        # are Fixpoints called inside the protected body
        return srcc_try_except(self, s, rest, env, k, after)
    if (isinstance(s, ast.Assign) and len(s.targets) == 1 and isinstance(s.targets[0], ast.Subscript) and isinstance(s.targets[0].value, ast.Name)
            and is_list(env.get(s.targets[0].value.id, ("",))[0]) and env[s.targets[0].value.id][0][1].find().t == "optstr"
            and not isinstance(s.targets[0].slice, ast.Slice)):
        l = s.targets[0].value.id                           # l[i] = e: IndexError outside -len .. len-1
        lty, lt = env[l]
        i = self.int_(s.targets[0].slice, env)
        ty, t = self.ex(s.value, env)
        if ty != "str":
            bad(s, "item assignment of a %s value" % show(ty))
        pre = self.take_pre()
        cn, env = self.bind_local(s, l, lty, env)
        return self.wrap(pre, ("bind", cn, "(py_list_set %s %s (Some %s))" % (lt, i, t), go(env)))
    if (isinstance(s, ast.Assign) and len(s.targets) == 1 and isinstance(s.targets[0], ast.Name)
            and s.targets[0].id in srcc_optlocals(self)):
        x = s.targets[0].id                                 # a local that holds None or an int: option Z
        if isinstance(s.value, ast.Constant) and s.value.value is None:
            term, pre = "None", []
        else:
            term = "(Some %s)" % self.int_(s.value, env)
            pre = self.take_pre()
        cn, env = self.bind_local(s.targets[0], x, "optint", env, s.value)
        return self.wrap(pre, ("let", cn, term, go(env)))
    if (isinstance(s, ast.Expr) and isinstance(s.value, ast.Call) and isinstance(s.value.func, ast.Attribute) and s.value.func.attr == "sort"
            and isinstance(s.value.func.value, ast.Name) and is_list(env.get(s.value.func.value.id, ("",))[0]) and not s.value.args
            and [k.arg for k in s.value.keywords] == ["key"] and isinstance(s.value.keywords[0].value, ast.Lambda)):
        # l.sort(key=lambda x: e): stable, ascending; a None-or-int key raises TypeError as soon as two items are compared
        l, lam = s.value.func.value.id, s.value.keywords[0].value
        lty, lt = env[l]
        elem = lty[1].find().t
        if (elem is None or len(lam.args.args) != 1 or lam.args.defaults or lam.args.vararg or lam.args.kwarg or lam.args.kwonlyargs
                or lam.args.posonlyargs or lam.args.args[0].arg in env):
            bad(s, "sort() key other than lambda x: <expression> with a fresh x")
        xcn, lenv = self.bind_local(lam, lam.args.args[0].arg, elem, env, s.value.func.value)
        kty, kt = srcc_pure(self, lam.body, lenv)
        if kty not in ("int", "optint"):
            bad(s, "sort() key of kind %s" % show(kty))
        cn, env = self.bind_local(s, l, lty, env)
        if kty == "int":
            return ("let", cn, "(py_sort_asc (fun %s => %s) %s)" % (xcn, kt, lt), go(env))
        return ("bind", cn, "(py_sort_optkey (fun %s => %s) %s)" % (xcn, kt, lt), go(env))
    if isinstance(s, ast.Expr) and isinstance(s.value, ast.Call) and isinstance(s.value.func, ast.Attribute) and isinstance(
            s.value.func.value, ast.Name) and is_list(env.get(s.value.func.value.id, ("",))[0]) and not s.value.keywords:
        v, l = s.value, s.value.func.value.id
        lty, lt = env[l]
        new = None
        if v.func.attr == "reverse" and not v.args:
            new = "(rev %s)" % lt
        elif v.func.attr == "extend" and len(v.args) == 1:
            ty, t = self.ex(v.args[0], env)
            unify(s, ty, lty, "extended list")
            new = "(%s ++ %s)" % (lt, t)
        elif v.func.attr == "insert" and len(v.args) == 2 and const_int(v.args[0]) == 0:
            ty, t = self.ex(v.args[1], env)
            unify(s, ("list", Cell(ty)), lty, "inserted element")
            new = "(py_insert0 %s %s)" % (t, lt)
        if new is not None:
            pre = self.take_pre()
            cn, env = self.bind_local(s, l, lty, env)
            return self.wrap(pre, ("let", cn, new, go(env)))
    if isinstance(s, ast.If):
        t, neg = s.test, False
        if isinstance(t, ast.UnaryOp) and isinstance(t.op, ast.Not):
            t, neg = t.operand, True
        if (isinstance(t, ast.Call) and dotted(t.func) == "_is_str" and "_is_str" not in env and len(t.args) == 1 and not t.keywords
                and isinstance(t.args[0], ast.Name) and env.get(t.args[0].id, ("",))[0] == "bytes"
                and self.mod.imports.get("_is_str") == "netaddr.compat._is_str" and compat_lambda_isinstance("_is_str")):
            # _is_str(x) for a packed byte string: compat tests isinstance(x, (str, bytes)) -- true
            return self.block((s.orelse if neg else s.body) + rest, env, k, after)
        t = s.test
        if (isinstance(t, ast.Compare) and len(t.ops) == 1 and isinstance(t.ops[0], ast.Is) and isinstance(t.left, ast.Name)
                and isinstance(t.comparators[0], ast.Constant) and t.comparators[0].value is None
                and env.get(t.left.id, ("",))[0] in ("optint", "optstr", "optcls6") and t.left.id in [a.arg for a in self.f.args.args]):
            # `if x is None: x = e` for a parameter declared optint / optstr / optcls6: from here on x is an int / text / dialect
            x, a = t.left.id, s.body[0] if len(s.body) == 1 else None
            if not (s.orelse == [] and isinstance(a, ast.Assign) and len(a.targets) == 1 and isinstance(a.targets[0], ast.Name) and a.targets[0].id == x):
                bad(s, "`if %s is None:` followed by something other than `%s = <default>`" % (x, x))
            old, base = env[x][1], {"optint": "int", "optstr": "str", "optcls6": "cls6"}[env[x][0]]
            dflt = srcc_pure(self, a.value, env, base)[1]
            cn, env = self.bind_local(a.targets[0], x, base, env, t)
            return ("let", cn, "(py_opt_default %s %s)" % (old, dflt), go(env))
    return None


_block0 = Fn.block


def _srcc_block(self, stmts, env, k, after):
    if stmts and srcc_on(self):
        r = srcc_stmt(self, stmts[0], list(stmts[1:]), env, k, after)
        if r is not None:
            return r
    return _block0(self, stmts, env, k, after)


Fn.block = _srcc_block
_return0 = Fn.return_


def _srcc_return(self, s, env):
    """`return (a, b, c, d)` of ints in a unit whose callers read the result as a word sequence: the list [a; b; c; d]"""
    v = s.value
    if srcc_on(self) and isinstance(v, ast.Tuple) and v.elts and not (env["@break"] is not None and not env["@lret"]):
        snap, pre0 = self.snapshot(), list(self.pre)
        items = [self.ex(x, env) for x in v.elts]
        if all(ty == "int" for ty, _ in items):
            return self.wrap(self.take_pre(), self.leaf(env, ("list", Cell("int")), "[%s]" % "; ".join(t for _, t in items)))
        self.restore(snap)
        self.pre = pre0
    return _return0(self, s, env)


Fn.return_ = _srcc_return


_listexpr0 = Fn.listexpr


def _srcc_listexpr(self, node, env):
    """`for c in s` / a comprehension over text s: its characters as one-character strings"""
    r = _listexpr0(self, node, env)
    if srcc_on(self) and r[0] == "str":
        return (("list", Cell("str")), "(py_list_of_str %s)" % r[1])
    return r


Fn.listexpr = _srcc_listexpr


_fn_text0 = Fn.text


def _srcc_fn_text(self):
    t = _fn_text0(self)
    for i, cell in enumerate(self.__dict__.get("srcc_cells", [])):
        e = cell.find().t
        t = t.replace("#CELL%d#" % i, coqty(e, self.f) if e is not None else "unit")     # never used: any type does
    return t


Fn.text = _srcc_fn_text


_children0 = Fn.children


def _srcc_children(ir):
    return [x for x in (ir[3], ir[4]) if x is not None] if ir[0] == "xtry" else _children0(ir)


Fn.children = staticmethod(_srcc_children)
_effects0 = Fn.effects


def _srcc_effects(self, ir):
    return ir[0] == "xtry" or _effects0(self, ir)


Fn.effects = _srcc_effects
_render0 = Fn.render


def _srcc_render(self, ir, ind, oc, optional=False):
    if ir[0] == "xtry":             # ("xtry", <handler symbol and its arguments>, pattern | None, body, rest | None)
        body = self.render(ir[3], ind + "   ", True, False)
        if ir[4] is None:
            return "%s\n%s  (%s)" % (ir[1], ind, body)
        return "do %s <- %s\n%s  (%s);\n%s%s" % (ir[2], ir[1], ind, body, ind, self.render(ir[4], ind, oc, optional))
    return _render0(self, ir, ind, oc, optional)


Fn.render = _srcc_render
_fn_text1 = Fn.text


def _srcc_fn_text_be(self):
    """a definition that calls one of the socket functions bound at import time (or another such definition) takes the back-end
    as its first parameter `be`"""
    t = _fn_text1(self)
    if self.__dict__.get("srcc_be"):
        if any(re.search(r"\bbe\b", L.text(self).split(":=", 1)[1]) for L in self.loops):
            bad(self.f, "a loop of %s uses the back-end" % self.name)
        head = "Definition %s " % self.cname
        if t.count(head) != 1:
            bad(self.f, "cannot place the back-end parameter of %s" % self.cname)
        t = t.replace(head, head + "(be : py_backend) ")
    return t


Fn.text = _srcc_fn_text_be


_assigned_names0 = assigned_names


def assigned_names(stmts):
    """as before; in addition `l[i] = e` (item assignment, read by the SRCC units only) rebinds the list l"""
    found = [(n.lineno, n.col_offset, n.value.id) for st in stmts for n in ast.walk(st)
             if isinstance(n, ast.Subscript) and isinstance(n.ctx, ast.Store) and isinstance(n.value, ast.Name)]
    if not found:
        return _assigned_names0(stmts)
    out = _assigned_names0(stmts)
    for x in in_order(found):
        if x not in out:
            out.append(x)
    return out


# ==== SRCG: the remaining small functions (netaddr/ip/iana.py query / _within_bounds, ...) ==========================================
# Units of SRCG_UNITS only, read by class FnG (a subclass of FnE registered through FN_CLASS); the text generated for every
# other unit is untouched.  Readings: docstring paragraph SRCG.  Symbols: Model/SrcPreludeG.v.
SRCG_UNITS = [
    # C19: the IANA lookup.  `ikey` = a key object of an IANA_INFO dictionary together with its record (Model/Iana.v irow: the key is
    # an IPNetwork, an IPRange or an IPAddress object -- DictUpdater.update makes nothing else); IANA_INFO is a Section variable of
    # the generated file (a table symbol: dictionary name -> its rows in insertion order; the VALUES are regenerated data,
    # harness/gen/iana.py -> Gen/iana_gen.v)
    ("netaddr/ip/iana.py", "pysrc_iana_gen.v", "iana_", " Base.PyStr Model.Iana Model.SrcPreludeSRCE Model.SrcPreludeG",
     [(None, "_within_bounds", {"ip": "obj", "ip_range": "ikey"}), (None, "query", {"ip_addr": "obj"})]),
    # C19 / C08: the small methods of the identifier classes of netaddr/eui/__init__.py.  `oui` / `iab` = an OUI / IAB object (the
    # integer it stands for, as for CTOR_AS_ARG); `orec` = a registration record, the dict with the six constant keys idx, oui |
    # iab, org, address, offset, size as the tuple of their values in that order (what the translated _parse_data answers); the
    # pseudo-parameter "self.<attr>" makes that attribute of the receiver a leading parameter; "self.*" lists the attributes a
    # constructor-like method assigns (it answers the tuple of their final values)
    ("netaddr/eui/__init__.py", "pysrc_euig_gen.v", "", " Base.PyStr Model.SrcPreludeStr Model.Eui Model.SrcPreludeEui Model.SrcPreludeEui2 Model.SrcPreludeSRCE Model.SrcPreludeViews Model.SrcPreludeG",
     [(c, "%s:%s" % (m, c.lower()), {"other": c.lower()}) for c in ("OUI", "IAB") for m in ("__eq__", "__ne__")] +
     [("OUI", "reg_count", {"self.records": "list orec"}), ("OUI", "registration", {"index": "int", "self.records": "list orec"}),
      ("OUI", "__getstate__", {"self.records": "list orec"}), ("OUI", "__setstate__", {"state": "tup:int,list orec", "self.*": "_value,records"}),
      ("IAB", "registration", {"self.record": "orec"}), ("IAB", "__getstate__", {"self.record": "orec"}),
      ("IAB", "__setstate__", {"state": "tup:int,orec", "self.*": "_value,record"}),
      ("OUI", "__repr__", {}), ("IAB", "__repr__", {}), ("BaseIdentifier", "__hex__", {}), ("BaseIdentifier", "__oct__", {}),
      # the constructors on an int argument: the index dicts ieee.OUI_INDEX / ieee.IAB_INDEX and the registry files are Section
      # variables of the generated file (SRCG_EUI_PREAMBLE)
      ("OUI", "__init__:int", {"oui": "int", "self.*": "_value,records"}),
      ("IAB", "__init__:int", {"iab": "int", "strict": "bool", "self.*": "_value,record"}),
      # EUI.__repr__ (through the translated __str__, which reads the receiver's dialect) and EUI.info (`einfo` = the dict with the
      # key 'OUI' and possibly 'IAB' as the pair (record, None-or-record))
      ("EUI", "__repr__", {"self._dialect": "edialect"}), ("EUI", "info", {})]),
]
SRCG_UNITS.append(
    # C19: netaddr/eui/ieee.py load_index.  `index` (an index dict, type eindex) is changed in place: the function answers the new
    # dict; `fp` = the index file as the list of its lines; csv.reader is the Section variable CSV_READER (decoded lines -> rows)
    ("netaddr/eui/ieee.py", "pysrc_ieeeg_gen.v", "ieee_", " Base.PyStr Model.SrcPreludeStr Model.SrcPreludeSRCE Model.SrcPreludeG",
     [(None, "load_index", {"index": "eindex", "fp": "list str"})]))
SRCG_UNITS.append(
    # netaddr/ip/__init__.py, what was left: text renderings around the translated __str__ (C01 / C03 / C12), IPNetwork.ipv4 (C16)
    (IPFILE, "pysrc_ipg_gen.v", "", " Base.PyStr Model.SrcPreludeStr Model.AddrText Model.SrcPreludeCtor Model.SrcPreludeSRCE Model.SrcPreludeG",
     [("IPAddress", "__repr__", {}), ("IPNetwork", "__repr__", {}), ("IPRange", "__str__", {}), ("IPRange", "__repr__", {}),
      ("IPAddress", "__oct__", {}), ("IPNetwork", "ipv4", {}),
      # `darg6` = the dialect argument of format(): None | a dialect class with word_fmt (the pair (word_fmt, compact)) | another object
      ("IPAddress", "format", {"dialect": "darg6"})]))
SRCG_UNITS.append(
    # C05: iter_unique_ips(*args) -- the argument tuple is one list parameter; the generator is the list of what it yields
    (IPFILE, "pysrc_uniq_gen.v", "", " Model.Merge Model.SrcPreludeSRCE Model.SrcPreludeMerge Model.SrcPreludeG",
     [(None, "iter_unique_ips", {"args": "list mitem"})]))
SRCG_UNITS.append(
    # C19: how the IANA dictionaries are filled (second unit over iana.py; no table symbol).  `srec` = a record as handed to the
    # subscriber: a dict of text values = association list; update() answers the item (key object, record) it stores
    ("netaddr/ip/iana.py", "pysrc_ianab_gen.v", "iana_", " Base.PyStr Model.SrcPreludeStr Model.AddrText Model.SrcPreludeCtor Model.Iana Model.SrcPreludeSRCE Model.SrcPreludeG",
     [("MulticastParser", "normalise_addr", {"addr": "str"}),
      ("DictUpdater", "update", {"data": "srec", "self.topic": "str", "self.unique_key": "str"})]))
STATE["MulticastParser"] = STATE["DictUpdater"] = ()
SRCG_UNITS.append(
    # C12: netaddr/core.py num_bits -- both definitions: the one the module uses (`try:` probes int.bit_length, the def sits in
    # the try body) and the fallback of the `except AttributeError:` handler (dead on every supported Python)
    ("netaddr/core.py", "pysrc_core_gen.v", "core_", " Model.SrcPreludeSRCE Model.SrcPreludeCmp Model.SrcPreludeG",
     [(None, "num_bits:bit_length", {"int_val": "int"}), (None, "num_bits:fallback", {"int_val": "int"})]))
FUEL[(None, "num_bits:fallback", 1)] = ("int_val", 1)        # one `>>= 1` per iteration: at most int_val (in fact its bit length) of them
SRCG_UNITS.append(
    # C20: SubnetSplitter.__init__ on an IPNetwork argument (read by the base class Fn, as the other methods of that class:
    # the state `_subnets` in, the new state out; IPNetwork(x) of an IPNetwork is a copy)
    ("netaddr/contrib/subnet_splitter.py", "pysrc_splitterg_gen.v", "", " Model.SrcPreludeSplitter",
     [("SubnetSplitter", "__init__", {"base_cidr": "net"})]))
SRCG_PLAIN_FN = ("pysrc_splitterg_gen.v",)         # SRCG units read by Fn itself
SRCG_UNITS.append(
    # C06 / C07: what was left of netaddr/ip/sets.py (read by FnG; the SRCA hooks are not active here): the state `_cidrs` is the
    # leading parameter self_cidrs (STATEVARS, type `dict` = the keys in insertion order)
    (SETSFILE, "pysrc_sets_g_gen.v", "", " Base.PyStr Model.SrcPreludeStr Model.AddrText Model.SrcPreludeCtor Model.PySlice Model.SrcPreludeSplitter Model.SrcPreludeSets Model.SrcPreludeG",
     [("IPSet", "__iter__", {}), ("IPSet", "__hash__", {}), ("IPSet", "__reduce__", {}), ("IPSet", "__repr__", {})]))
# the constant keys of a registration record, in the order of the `orec` tuple (= the dict literal the class writes), per class
SRCG_REC_KEYS = {"OUI": ("idx", "oui", "org", "address", "offset", "size"), "IAB": ("idx", "iab", "org", "address", "offset", "size")}
SRCG_REC_TYPES = ("int", "str", "str", ("list", "str"), "int", "int")
SRCG_INDEX = {"OUI_INDEX": "netaddr/eui/ieee.py", "IAB_INDEX": "netaddr/eui/ieee.py"}      # module-level `NAME = {}` of that file
STATE["BaseIdentifier"] = ("v",)
UNITS = UNITS + SRCG_UNITS
FILES = FILES + tuple(u[1] for u in SRCG_UNITS)
SRCG_OUT = tuple(u[1] for u in SRCG_UNITS)
SRCG_TYPES = {"ikey": "irow", "irec": "irow", "sdict": "sdict", "oui": "Z", "iab": "Z",
              "orec": "(Z * string * string * (list string) * Z * Z)", "eindex": "eindex", "zpair": "(Z * Z)", "darg6": "darg6", "cls6g": "(string * bool)",
              "srec": "(list (string * string))", "ikv": "ikeyview", "einfo": "(orec * option orec)"}
SRCG_IDCLASS = {"oui": "OUI", "iab": "IAB"}
COQTY.update(SRCG_TYPES)
SRCG_RESERVED = set("irow ikeyview IKNet IKRange IKAddr py_ikey_view sdict py_sd_new py_sd_setdefault py_sd_append IANA_INFO "
                    "py_truthy py_fmt_oct py_fmt_hex py_index string append eindex py_eidx_mem py_eidx_get OUI_INDEX IAB_INDEX REGISTRY_FILE "
                    "py_pair_of_list py_rec_set CSV_READER py_map_og py_triple_of_list py_eidx_setdefault py_eidx_append py_flat_addrs py_net_addrs darg6 D6None D6Class D6Other py_strip py_unpack2g py_srec_get split join contains_char py_repr_strlist py_sorted_nets".split())
UNIT_PREAMBLE["pysrc_iana_gen.v"] = (
    "(* IANA_INFO[name] for the four dictionaries the module creates: the rows (key object, record) in insertion order *)\n"
    "Section WithTable.\nVariable IANA_INFO : string -> list irow.\n")
UNIT_POSTAMBLE["pysrc_iana_gen.v"] = "\nEnd WithTable.\n"
UNIT_PREAMBLE["pysrc_euig_gen.v"] = (
    "(* the two index dicts of netaddr/eui/ieee.py (identifier -> its rows (offset, size), insertion order) and the registry files:\n"
    "   REGISTRY_FILE name offset size = what `fh.seek(offset); fh.read(size).decode('UTF-8')` answers on the package file `name` *)\n"
    "Section WithRegistry.\nVariable OUI_INDEX IAB_INDEX : eindex.\nVariable REGISTRY_FILE : string -> Z -> Z -> string.\n")
UNIT_POSTAMBLE["pysrc_euig_gen.v"] = "\nEnd WithRegistry.\n"
UNIT_PREAMBLE["pysrc_ieeeg_gen.v"] = (
    "(* csv.reader over the decoded lines of an index file: the rows it yields (csv.Error and UnicodeDecodeError are not modelled) *)\n"
    "Section WithCsv.\nVariable CSV_READER : list string -> list (list string).\n")
UNIT_POSTAMBLE["pysrc_ieeeg_gen.v"] = "\nEnd WithCsv.\n"
_is_value_before_SRCG = is_value


def is_value(t):
    if isinstance(t, tuple) and t and t[0] == "opnd":          # a refined operand (its field table is a dict: not hashable, and no Coq value)
        return False
    return (isinstance(t, str) and t in SRCG_TYPES) or _is_value_before_SRCG(t)


def srcg_pseudo(name, args, at):
    return ast.copy_location(ast.Call(func=ast.copy_location(ast.Name(id=name, ctx=ast.Load()), at), args=args, keywords=[]), at)


def srcg_compat_dict_items():
    """is netaddr.compat._dict_items (the Python 3 binding, the first in the file) `lambda x: list(x.items())`?"""
    fn = "netaddr/compat.py"
    tree = ast.parse(open(os.path.join(REPO, fn), encoding="utf-8").read())
    binds = [n for n in ast.walk(tree) if isinstance(n, ast.Assign) and any(isinstance(t, ast.Name) and t.id == "_dict_items" for t in n.targets)]
    other = [n for n in ast.walk(tree) if (isinstance(n, (ast.FunctionDef, ast.ClassDef)) and n.name == "_dict_items")
             or (isinstance(n, ast.alias) and (n.asname or n.name) == "_dict_items")]
    b = binds[0] if binds else None
    ok = (b is not None and not other and len(b.targets) == 1 and isinstance(b.value, ast.Lambda) and len(b.value.args.args) == 1
          and not b.value.args.defaults and ast.dump(b.value.body) == ast.dump(ast.parse("list(%s.items())" % b.value.args.args[0].arg, mode="eval").body))
    if not ok:
        bad(b, "compat._dict_items is not `lambda x: list(x.items())` the way the translator assumes", fn)
    return True


class SrcgPrepare(ast.NodeTransformer):
    """rewrites of a function of an SRCG unit into statements the translator knows (the names __g_* are the translator's):
    `d = {}` -> d = __g_sd_new();  `d.setdefault('k', [])` -> d = __g_sd_setdefault(d, 'k');  `d['k'].append(e)` -> d = __g_sd_append(d, 'k', e)
    (d a local declared `sdict` by its first binding `d = {}`);  `for a, b in _dict_items(IANA_INFO['K']): body` ->
    `for a__b in __g_iana_items('K'): a = __g_item_key(a__b); b = __g_item_value(a__b); body`"""

    def __init__(self, fn, f):
        self.fn, self.nitems = fn, 0
        self.outparams = [x for x, t in getattr(fn, "g_types", {}).items() if t == "eindex" and x in [a.arg for a in f.args.args]]
        self.sdicts = set(self.outparams) | {st.targets[0].id for st in ast.walk(f) if isinstance(st, ast.Assign) and len(st.targets) == 1
                       and isinstance(st.targets[0], ast.Name) and isinstance(st.value, ast.Dict) and not st.value.keys}

    def visit_Assign(self, st):
        if (len(st.targets) == 1 and isinstance(st.targets[0], ast.Name) and st.targets[0].id in self.sdicts and isinstance(st.value, ast.Dict)
                and not st.value.keys):
            st.value = srcg_pseudo("__g_sd_new", [], st.value)
            return st
        return self.generic_visit(st)

    def info_dict(self, f):
        """EUI.info: `d = {'OUI': e}` -> d = __g_info_new(e); `d['IAB'] = e` -> d = __g_info_iab(d, e) (a dict with the key 'OUI' and
        possibly 'IAB': the pair (record, None-or-record)); any other use of such a d than DictDotLookup(d) is rejected in FnG.call"""
        ds = {st.targets[0].id for st in ast.walk(f) if isinstance(st, ast.Assign) and len(st.targets) == 1 and isinstance(st.targets[0], ast.Name)
              and isinstance(st.value, ast.Dict) and [kk.value if isinstance(kk, ast.Constant) else None for kk in st.value.keys] == ["OUI"]}
        if not ds:
            return
        for blk in [n for n in ast.walk(f) if isinstance(getattr(n, "body", None), list)]:
            for fld in ("body", "orelse"):
                stmts = getattr(blk, fld, None)
                if not isinstance(stmts, list):
                    continue
                for i, st in enumerate(stmts):
                    if (isinstance(st, ast.Assign) and len(st.targets) == 1 and isinstance(st.targets[0], ast.Name) and st.targets[0].id in ds
                            and isinstance(st.value, ast.Dict)):
                        st.value = srcg_pseudo("__g_info_new", [st.value.values[0]], st.value)
                    elif (isinstance(st, ast.Assign) and len(st.targets) == 1 and isinstance(st.targets[0], ast.Subscript)
                          and isinstance(st.targets[0].value, ast.Name) and st.targets[0].value.id in ds
                          and isinstance(st.targets[0].slice, ast.Constant) and st.targets[0].slice.value == "IAB"):
                        d = st.targets[0].value
                        stmts[i] = ast.copy_location(ast.Assign(
                            targets=[ast.copy_location(ast.Name(id=d.id, ctx=ast.Store()), d)],
                            value=srcg_pseudo("__g_info_iab", [ast.copy_location(ast.Name(id=d.id, ctx=ast.Load()), d), st.value], st)), st)

    def visit_Expr(self, st):
        v = st.value
        if (isinstance(v, ast.Call) and isinstance(v.func, ast.Attribute) and not v.keywords and isinstance(v.func.value, ast.Name)
                and v.func.value.id in self.sdicts and v.func.attr == "setdefault" and len(v.args) == 2 and isinstance(v.args[1], ast.List)
                and not v.args[1].elts):
            d = v.func.value
            return ast.copy_location(ast.Assign(targets=[ast.copy_location(ast.Name(id=d.id, ctx=ast.Store()), d)],
                                                value=srcg_pseudo("__g_sd_setdefault", [d, v.args[0]], v)), st)
        if (isinstance(v, ast.Call) and isinstance(v.func, ast.Attribute) and not v.keywords and v.func.attr == "append" and len(v.args) == 1
                and isinstance(v.func.value, ast.Subscript) and isinstance(v.func.value.value, ast.Name) and v.func.value.value.id in self.sdicts
                and not isinstance(v.func.value.slice, ast.Slice)):
            d = v.func.value.value
            return ast.copy_location(ast.Assign(targets=[ast.copy_location(ast.Name(id=d.id, ctx=ast.Store()), d)],
                                                value=srcg_pseudo("__g_sd_append", [d, v.func.value.slice, v.args[0]], v)), st)
        return self.generic_visit(st)

    def visit_Try(self, st):
        """try: BODY / finally: <parameter>.close() -> BODY (closing the file has no effect the model sees; an exception of BODY
        leaves the function either way)"""
        fb = st.finalbody[0].value if len(st.finalbody) == 1 and isinstance(st.finalbody[0], ast.Expr) else None
        if (not st.handlers and not st.orelse and isinstance(fb, ast.Call) and isinstance(fb.func, ast.Attribute) and fb.func.attr == "close"
                and not fb.args and not fb.keywords and isinstance(fb.func.value, ast.Name)
                and getattr(self.fn, "g_types", {}).get(fb.func.value.id) == "list str"):
            return [self.visit(x) for x in st.body]
        return self.generic_visit(st)

    def visit_Call(self, n):
        n = self.generic_visit(n)
        a = n.args[0] if len(n.args) == 1 and not n.keywords else None
        if (dotted(n.func) == "_csv.reader" and isinstance(a, ast.ListComp) and len(a.generators) == 1 and not a.generators[0].ifs
                and isinstance(a.generators[0].target, ast.Name) and isinstance(a.generators[0].iter, ast.Name)
                and getattr(self.fn, "g_types", {}).get(a.generators[0].iter.id) == "list str"
                and ast.dump(a.elt) == ast.dump(ast.parse("%s.decode('UTF-8')" % a.generators[0].target.id, mode="eval").body)):
            # _csv.reader([x.decode('UTF-8') for x in fp]) for the file fp (its lines): the rows of the decoded lines
            if not FnF.plain_import(self.fn, "_csv", "csv"):
                bad(n, "_csv is not bound by `import csv as _csv` alone")
            return srcg_pseudo("__g_csv_rows", [a.generators[0].iter], n)
        return n

    def dict_items(self, f):
        """`self.dct[k] = v` as the last statement of its path (tail position: last in its block, the enclosing ifs last in theirs):
        the method answers the item (k, v) it stores -> return __g_dict_item(k, v)"""
        def tail(stmts):
            for st in stmts[:-1]:
                if any(isinstance(n, ast.Subscript) and dotted(n.value) == "self.dct" for n in ast.walk(st)):
                    bad(st, "self.dct[..] used before the end of a path")
            last = stmts[-1] if stmts else None
            if isinstance(last, ast.If):
                tail(last.body)
                tail(last.orelse)
            elif (isinstance(last, ast.Assign) and len(last.targets) == 1 and isinstance(last.targets[0], ast.Subscript)
                  and dotted(last.targets[0].value) == "self.dct" and not isinstance(last.targets[0].slice, ast.Slice)):
                stmts[-1] = ast.copy_location(ast.Return(value=srcg_pseudo("__g_dict_item", [last.targets[0].slice, last.value], last)), last)
            elif last is not None and any(isinstance(n, ast.Subscript) and dotted(n.value) == "self.dct" for n in ast.walk(last)):
                bad(last, "use of self.dct other than `self.dct[k] = v` at the end of a path")
        if any(isinstance(n, ast.Attribute) and dotted(n) == "self.dct" for n in ast.walk(f)):
            if any(isinstance(n, ast.Return) for n in ast.walk(f)):
                bad(f, "a method that stores into self.dct and returns")
            tail(f.body)

    def visit_FunctionDef(self, f):
        self.dict_items(f)
        self.info_dict(f)
        a = f.args
        if a.vararg is not None and not (a.args or a.kwarg or a.kwonlyargs or a.posonlyargs or a.defaults) and is_list(
                parse_type(getattr(self.fn, "g_types", {}).get(a.vararg.arg, ""))):
            # def f(*xs) with xs declared a list: the tuple of the arguments is one list parameter
            a.args, a.vararg = [ast.copy_location(ast.arg(arg=a.vararg.arg), a.vararg)], None
        body = [st for st in f.body if not (isinstance(st, ast.Expr) and isinstance(st.value, ast.Constant))]
        lp = body[0] if len(body) == 1 and isinstance(body[0], ast.For) else None
        inner = lp.body[0] if lp is not None and len(lp.body) == 1 and isinstance(lp.body[0], ast.For) else None
        y = inner.body[0].value if inner is not None and len(inner.body) == 1 and isinstance(inner.body[0], ast.Expr) else None
        if any(isinstance(n, (ast.Yield, ast.YieldFrom)) for n in ast.walk(f)) and getattr(self.fn, "variant", "") not in ("start", "next"):
            # a generator `for x in E: for y in x: yield y` (nothing else): the list of what it yields = the addresses of the
            # IPNetwork objects of the list E, one after the other -> return __g_flat_addrs(E); every other generator shape is rejected
            if not (isinstance(y, ast.Yield) and isinstance(y.value, ast.Name) and isinstance(inner.target, ast.Name)
                    and y.value.id == inner.target.id and isinstance(lp.target, ast.Name) and isinstance(inner.iter, ast.Name)
                    and inner.iter.id == lp.target.id and lp.target.id != inner.target.id and not lp.orelse and not inner.orelse
                    and not any(isinstance(n, ast.Name) and n.id in (lp.target.id, inner.target.id) for n in ast.walk(lp.iter))):
                bad(f, "generator other than `for x in E: for y in x: yield y`")
            ret = ast.copy_location(ast.Return(value=srcg_pseudo("__g_flat_addrs", [lp.iter], lp)), lp)
            f.body = [st for st in f.body if st is not lp] + [ret]
        f = self.generic_visit(f)
        if self.outparams:                    # a dict parameter changed in place: the function answers the new dict(s)
            if any(isinstance(n, ast.Return) for n in ast.walk(f)) or len(self.outparams) != 1:
                bad(f, "a function that changes a dict parameter in place and returns")
            ret = ast.copy_location(ast.Return(value=ast.copy_location(ast.Name(id=self.outparams[0], ctx=ast.Load()), f.body[-1])), f.body[-1])
            ret.lineno = ret.end_lineno = f.end_lineno
            f.body.append(ret)
        return f

    def visit_For(self, st):
        st = self.generic_visit(st)
        it, tg = st.iter, st.target
        if (isinstance(it, ast.Call) and dotted(it.func) == "_dict_items" and len(it.args) == 1 and not it.keywords
                and isinstance(it.args[0], ast.Subscript) and dotted(it.args[0].value) == "IANA_INFO"
                and isinstance(tg, ast.Tuple) and len(tg.elts) == 2 and all(isinstance(x, ast.Name) for x in tg.elts)):
            if self.fn.mod.imports.get("_dict_items") != "netaddr.compat._dict_items" or not srcg_compat_dict_items():
                bad(st, "_dict_items is not netaddr.compat._dict_items")
            self.nitems += 1             # one name per loop (a later loop may reuse the two targets)
            item = "%s__%s__%d" % (tg.elts[0].id, tg.elts[1].id, self.nitems)
            load = lambda: ast.copy_location(ast.Name(id=item, ctx=ast.Load()), tg)
            pre = [ast.copy_location(ast.Assign(targets=[ast.copy_location(ast.Name(id=x.id, ctx=ast.Store()), x)],
                                                value=srcg_pseudo(f, [load()], x)), x)
                   for x, f in zip(tg.elts, ("__g_item_key", "__g_item_value"))]
            st.target = ast.copy_location(ast.Name(id=item, ctx=ast.Store()), tg)
            st.iter = srcg_pseudo("__g_iana_items", [it.args[0].slice], it)
            st.body = pre + st.body
        return st


SRCG_PICK = [None]         # which of the two definitions of core.num_bits Module.function answers while FnG reads that unit
_module_function_before_SRCG = Module.function


def _srcg_module_function(self, name):
    if self.fn == "netaddr/core.py" and name == "num_bits" and SRCG_PICK[-1] in ("bit_length", "fallback"):
        # `try: <probe>; def num_bits(..): .. / except AttributeError: def num_bits(..): ..` at module level, nothing else binds the name
        tries = [t for t in self.tree.body if isinstance(t, ast.Try) and any(isinstance(n, ast.FunctionDef) and n.name == name for n in ast.walk(t))]
        defs = [n for n in ast.walk(self.tree) if isinstance(n, ast.FunctionDef) and n.name == name]
        other = [n for n in ast.walk(self.tree) if isinstance(n, ast.Name) and n.id == name and isinstance(n.ctx, ast.Store)]
        t = tries[0] if len(tries) == 1 else None
        a = [st for st in (t.body if t else []) if isinstance(st, ast.FunctionDef) and st.name == name]
        b = [st for h in (t.handlers if t else []) for st in h.body if isinstance(st, ast.FunctionDef) and st.name == name]
        if (t is None or other or len(defs) != 2 or len(a) != 1 or len(b) != 1 or len(t.handlers) != 1 or dotted(t.handlers[0].type) != "AttributeError"
                or t.orelse or t.finalbody or a[0].decorator_list or b[0].decorator_list):
            bad(defs[0] if defs else None, "core.num_bits is not defined once in a try body and once in its `except AttributeError` handler")
        return a[0] if SRCG_PICK[-1] == "bit_length" else b[0]
    return _module_function_before_SRCG(self, name)


Module.function = _srcg_module_function


class FnG(FnE):
    """the constructs of the SRCG units (docstring paragraph SRCG); everything else goes to FnE / Fn unchanged"""

    def prepare(self, f):
        import copy
        f = super().prepare(f)
        if any(isinstance(n, ast.Name) and n.id.startswith("__g_") for n in ast.walk(f)):
            bad(f, "a name starting with __g_ (reserved for the translator)")
        f = SrcgPrepare(self, f).visit(copy.deepcopy(f))
        attrs = self.state_attrs()
        if attrs and self.pyname == "__init__":
            f = self.prepare_ctor(f)
        if attrs:
            # a constructor-like method ("self.*"): the listed attributes are locals self__<attr>, unbound at entry; the method must
            # not return a value; it answers the tuple of their final values
            if any(isinstance(n, ast.Return) and n.value is not None for n in ast.walk(f)):
                bad(f, "a method declared with \"self.*\" returns a value")

            class S(ast.NodeTransformer):
                def visit_Attribute(self, n):
                    if isinstance(n.value, ast.Name) and n.value.id == "self" and n.attr in attrs:
                        return ast.copy_location(ast.Name(id="self__" + n.attr, ctx=n.ctx), n)
                    return self.generic_visit(n)

                def visit_Return(self, n):
                    return ast.copy_location(ast.Return(value=final(n)), n)

            def final(at):
                xs = [ast.copy_location(ast.Name(id="self__" + a, ctx=ast.Load()), at) for a in attrs]
                return xs[0] if len(xs) == 1 else ast.copy_location(ast.Tuple(elts=xs, ctx=ast.Load()), at)
            f = S().visit(f)
            if not isinstance(f.body[-1], (ast.Return, ast.Raise)):
                ret = ast.copy_location(ast.Return(value=final(f.body[-1])), f.body[-1])
                ret.lineno = ret.end_lineno = f.end_lineno
                f.body.append(ret)
        return ast.fix_missing_locations(f)

    def __init__(self, tr, recv, name, ptypes):
        self.g_types = dict(ptypes)
        SRCG_PICK.append(name.partition(":")[2] if tr.out == "pysrc_core_gen.v" else None)
        try:
            super().__init__(tr, recv, name, {k: v for k, v in ptypes.items() if not k.startswith("self.")})
        finally:
            SRCG_PICK.pop()

    def bool_(self, node, env):
        if isinstance(node, ast.Name) and env.get(node.id, ("",))[0] == "int" and self.tr.out == "pysrc_core_gen.v":
            return "(negb (%s =? 0))" % env[node.id][1]        # the truth value of an int
        return super().bool_(node, env)

    def unit_init(self, env):
        """pseudo-parameters "self.<attr>" (the attribute is a leading parameter of the method), parameter types "tup:t1,t2,.." """
        super().unit_init(env)
        lead = []
        for key, ty in getattr(self, "g_types", {}).items():
            if key.startswith("self.") and key != "self.*":
                cn = self.coqname(self.f, "self_" + key[5:])
                self.attrs[key] = (parse_type(ty), cn)
                lead.append((cn, parse_type(ty)))
        self.params[:0] = lead
        for i, (cn, ty) in enumerate(self.params):
            if isinstance(ty, str) and ty.startswith("tup:"):
                ty = ("tup", tuple(parse_type(x) for x in ty[4:].split(",")))
                self.params[i] = (cn, ty)
                for key, val in env.items():
                    if not key.startswith("@") and val[1] == cn:
                        env[key] = (ty, cn)

    def prepare_ctor(self, f):
        """the constructor of an identifier class (OUI / IAB), rewritten into statements the translator knows:
        `super(C, self).__init__()` -> the body of the base class's __init__ (constant attribute assignments);
        `from netaddr.eui import ieee` -> dropped (ieee.OUI_INDEX / ieee.IAB_INDEX are table symbols, see call / rhs);
        `fh = _importlib_resources.open_binary(__package__, '<file>')` and `fh.close()` -> dropped, and
        `fh.seek(o); x = fh.read(n).decode('UTF-8')` (adjacent) -> x = __g_file_read('<file>', o, n); any other use of fh is rejected;
        `self.record = {<the six constant keys>}` -> self.record = __g_rec_new(<values in key order>);
        `self.record['k'] = e` -> self.record = __g_rec_set(self.record, 'k', e);
        the statement `self._parse_data(a, b, c)` -> OUI: self.records = self.records + [__g_parse_data(a, b, c)] (the callee's only
        effect is its last statement self.records.append(record): it answers that record); IAB: self.record = __g_parse_data(a, b, c)
        (the callee's only effect are its assignments self.record[..] = ..: it answers the new record);
        `for (a, b) in e` -> `for a__b__N in e: (a, b) = a__b__N`."""
        import copy
        fn, cls, files, n = self, self.recv, {}, [0]
        keys = SRCG_REC_KEYS.get(cls)
        if keys is None:
            bad(f, "constructor of %s" % cls)

        def attr(name, ctx, at):
            return ast.copy_location(ast.Attribute(value=ast.copy_location(ast.Name(id="self", ctx=ast.Load()), at), attr=name, ctx=ctx()), at)

        def walk(stmts):
            out, i = [], 0
            while i < len(stmts):
                st, nxt = stmts[i], stmts[i + 1] if i + 1 < len(stmts) else None
                i += 1
                v = st.value if isinstance(st, ast.Expr) else None
                if (isinstance(v, ast.Call) and isinstance(v.func, ast.Attribute) and v.func.attr == "__init__" and isinstance(v.func.value, ast.Call)
                        and dotted(v.func.value.func) == "super" and not fn.mod.toplevel("super") and not v.args and not v.keywords
                        and [dotted(x) for x in v.func.value.args] == [fn.owner, "self"]):
                    bases = [dotted(b) for b in fn.mod.classes[fn.owner].bases]
                    r = fn.mod.lookup(bases[0], "__init__") if len(bases) == 1 else None
                    body = [x for x in (r[1].body if r else []) if not (isinstance(x, ast.Expr) and isinstance(x.value, ast.Constant))]
                    if not r or len(r[1].args.args) != 1 or r[1].args.args[0].arg != "self" or any(
                            not (isinstance(x, ast.Assign) and len(x.targets) == 1 and (dotted(x.targets[0]) or "").startswith("self.")
                                 and isinstance(x.value, ast.Constant)) for x in body):
                        bad(st, "super().__init__() of a base class whose __init__ is not a list of constant attribute assignments")
                    out += copy.deepcopy(body)
                    continue
                if isinstance(st, ast.ImportFrom):
                    if st.module != "netaddr.eui" or [(a.name, a.asname) for a in st.names] != [("ieee", None)] or st.level:
                        bad(st, "import inside a function other than `from netaddr.eui import ieee`")
                    continue
                if (isinstance(st, ast.Assign) and len(st.targets) == 1 and isinstance(st.targets[0], ast.Name) and isinstance(st.value, ast.Call)
                        and dotted(st.value.func) == "_importlib_resources.open_binary" and len(st.value.args) == 2 and not st.value.keywords
                        and dotted(st.value.args[0]) == "__package__" and isinstance(st.value.args[1], ast.Constant)
                        and isinstance(st.value.args[1].value, str)
                        and fn.mod.imports.get("_importlib_resources") == "netaddr.compat._importlib_resources"):
                    files[st.targets[0].id] = st.value.args[1]
                    continue
                if isinstance(v, ast.Call) and isinstance(v.func, ast.Attribute) and isinstance(v.func.value, ast.Name) and v.func.value.id in files:
                    fh = v.func.value.id
                    if v.func.attr == "close" and not v.args and not v.keywords:
                        continue
                    r = nxt.value if isinstance(nxt, ast.Assign) and len(nxt.targets) == 1 and isinstance(nxt.targets[0], ast.Name) else None
                    if (v.func.attr == "seek" and len(v.args) == 1 and not v.keywords and isinstance(r, ast.Call) and isinstance(r.func, ast.Attribute)
                            and r.func.attr == "decode" and len(r.args) == 1 and not r.keywords and isinstance(r.args[0], ast.Constant)
                            and r.args[0].value == "UTF-8" and isinstance(r.func.value, ast.Call) and dotted(r.func.value.func) == fh + ".read"
                            and len(r.func.value.args) == 1 and not r.func.value.keywords):
                        nxt.value = srcg_pseudo("__g_file_read", [files[fh], v.args[0], r.func.value.args[0]], r)
                        continue
                    bad(st, "use of the file %s other than seek(o); x = read(n).decode('UTF-8') / close()" % fh)
                if (isinstance(st, ast.Assign) and len(st.targets) == 1 and dotted(st.targets[0]) == "self.record" and isinstance(st.value, ast.Dict)):
                    d = st.value
                    if [kk.value if isinstance(kk, ast.Constant) else None for kk in d.keys] != list(keys):
                        bad(st, "record literal whose keys are not %s" % (keys,))
                    st.value = srcg_pseudo("__g_rec_new", d.values, d)
                    out.append(st)
                    continue
                if (isinstance(st, ast.Assign) and len(st.targets) == 1 and isinstance(st.targets[0], ast.Subscript)
                        and dotted(st.targets[0].value) == "self.record" and isinstance(st.targets[0].slice, ast.Constant)):
                    out.append(ast.copy_location(ast.Assign(targets=[attr("record", ast.Store, st)], value=srcg_pseudo(
                        "__g_rec_set", [attr("record", ast.Load, st), st.targets[0].slice, st.value], st)), st))
                    continue
                if isinstance(v, ast.Call) and dotted(v.func) == "self._parse_data" and not v.keywords:
                    fn.check_parse_data(st, cls)
                    call = srcg_pseudo("__g_parse_data", [attr("_value", ast.Load, st)] + ([attr("record", ast.Load, st)] if cls == "IAB" else [])
                                       + v.args, v)          # (the state the callee reads is named, so that a loop carries it)
                    if cls == "OUI":
                        call = ast.copy_location(ast.BinOp(left=attr("records", ast.Load, st), op=ast.Add(),
                                                           right=ast.copy_location(ast.List(elts=[call], ctx=ast.Load()), st)), st)
                    out.append(ast.copy_location(ast.Assign(targets=[attr("records" if cls == "OUI" else "record", ast.Store, st)], value=call), st))
                    continue
                if isinstance(st, ast.For) and isinstance(st.target, ast.Tuple) and all(isinstance(x, ast.Name) for x in st.target.elts):
                    n[0] += 1
                    item = "__".join([x.id for x in st.target.elts] + [str(n[0])])
                    unpack = ast.copy_location(ast.Assign(targets=[st.target], value=ast.copy_location(ast.Name(id=item, ctx=ast.Load()), st.target)), st.target)
                    st.target = ast.copy_location(ast.Name(id=item, ctx=ast.Store()), st.target)
                    st.body = [unpack] + st.body
                for fld in ("body", "orelse", "finalbody"):
                    if isinstance(getattr(st, fld, None), list) and not isinstance(st, (ast.FunctionDef, ast.ClassDef)):
                        setattr(st, fld, walk(getattr(st, fld)) or ([ast.copy_location(ast.Pass(), st)] if fld == "body" else []))
                out.append(st)
            return out
        f.body = walk(f.body)
        if any(isinstance(x, ast.Name) and x.id in files for x in ast.walk(f)):
            bad(f, "the file object is used in a way the translator does not read")
        return f

    def check_parse_data(self, node, cls):
        """the effect of <cls>._parse_data on the object as the reading above needs it (the same reading as the SRCF unit that translates it)"""
        r = self.mod.lookup(cls, "_parse_data")
        g = r[1] if r and not r[2] else None
        if g is None:
            bad(node, "%s._parse_data not found" % cls)
        sets = [x for x in ast.walk(g) if isinstance(x, ast.Attribute) and isinstance(x.value, ast.Name) and x.value.id == "self"]
        if cls == "OUI":
            last = g.body[-1].value if isinstance(g.body[-1], ast.Expr) else None
            ok = (isinstance(last, ast.Call) and dotted(last.func) == "self.records.append" and len(last.args) == 1 and not last.keywords
                  and all(x.attr in ("records", "_value") or x is last.func.value for x in sets) and sum(x.attr == "records" for x in sets) == 1
                  and all(isinstance(x.ctx, ast.Load) for x in sets))
        else:
            ok = all(x.attr in ("record", "_value") and isinstance(x.ctx, ast.Load) for x in sets) and not any(
                isinstance(x, ast.Return) and x.value is not None for x in ast.walk(g))
        if not ok:
            bad(node, "%s._parse_data touches the object in a way the translator does not read" % cls)

    def state_attrs(self):
        return [a for a in getattr(self, "g_types", {}).get("self.*", "").split(",") if a]

    def coqname(self, node, name):
        if name in SRCG_RESERVED:
            name_ = name + "_"
            if self.used.setdefault(name_, name) != name:
                bad(node, "identifier clash on %s" % name_)
            return name_
        return super().coqname(node, name)

    # ---- which attributes do the objects of a netaddr.ip class have (classes with __slots__ through all their bases)?
    def class_hasattr(self, node, cls, attr):
        mod = self.tr.modof(cls)
        if cls not in mod.classes:
            bad(node, "hasattr on an object of class %s, which is not a class of netaddr/ip/__init__.py" % cls)
        slots = set()
        for c in mod.ancestors(cls):
            if c == "object":
                continue
            cd = mod.classes.get(c)
            ss = [st for st in (cd.body if cd else []) if isinstance(st, ast.Assign) and any(dotted(t) == "__slots__" for t in st.targets)]
            if cd is None or len(ss) != 1 or not isinstance(ss[0].value, (ast.Tuple, ast.List)) or not all(
                    isinstance(x, ast.Constant) and isinstance(x.value, str) for x in ss[0].value.elts):
                bad(node, "class %s has no literal __slots__ (its instances may have any attribute)" % c)
            slots |= {x.value for x in ss[0].value.elts}
            if any(isinstance(st, ast.FunctionDef) and st.name in ("__getattr__", "__getattribute__") for st in cd.body):
                bad(node, "class %s defines __getattr__" % c)
        if attr in slots:
            bad(node, "hasattr(<%s object>, %r): a slot, set or not" % (cls, attr))
        if mod.lookup(cls, attr) is not None:
            return True
        for c in mod.ancestors(cls):            # any other class-level binding of the name
            cd = mod.classes.get(c)
            if cd is not None and any(isinstance(n, ast.Name) and n.id == attr and isinstance(n.ctx, ast.Store) for st in cd.body
                                      if not isinstance(st, ast.FunctionDef) for n in ast.walk(st)):
                return True
        return False

    def class_of_var(self, x, env):
        ty = env.get(x, ("",))[0]
        if ty == "net":
            return "IPNetwork"
        if ty == "obj":
            return "IPAddress"
        if isinstance(ty, tuple) and ty[0] == "opnd" and ty[1] in KINDCLASS:
            return KINDCLASS[ty[1]]
        return None

    def if_(self, s, rest, env, k, after):
        t = s.test
        if (isinstance(t, ast.Call) and dotted(t.func) == "hasattr" and "hasattr" not in env and not self.mod.toplevel("hasattr")
                and len(t.args) == 2 and not t.keywords and isinstance(t.args[0], ast.Name) and isinstance(t.args[1], ast.Constant)
                and isinstance(t.args[1].value, str)):
            x = t.args[0].id
            if env.get(x, ("",))[0] == "ikey":
                # the key object of an IANA_INFO row: an IPNetwork, an IPRange or an IPAddress object (SrcPreludeG.py_ikey_view);
                # inside each arm the test (and every later hasattr / in / ==) is decided by the class
                hn, hv, hs, he, ha = [self.fresh() for _ in range(5)]
                nenv, renv, aenv = dict(env), dict(env), dict(env)
                nenv[x], renv[x], aenv[x] = ("net", hn), (("opnd", "ORng", {"ver": hv, "s": hs, "e": he}), None), ("obj", self.objvar(ha))
                return ("omatch", "(py_ikey_view %s)" % env[x][1], [
                    ("IKNet", [hn], self.block([s] + rest, nenv, k, after)), ("IKRange", [hv, hs, he], self.block([s] + rest, renv, k, after)),
                    ("IKAddr", [ha], self.block([s] + rest, aenv, k, after))])
            cls = self.class_of_var(x, env)
            if cls is not None:
                yes = self.class_hasattr(s, cls, t.args[1].value)
                return self.block((s.body if yes else s.orelse) + rest, env, k, after)
        neg = isinstance(t, ast.UnaryOp) and isinstance(t.op, ast.Not)
        h = t.operand if neg else t
        if (isinstance(h, ast.Call) and dotted(h.func) == "hasattr" and "hasattr" not in env and not self.mod.toplevel("hasattr")
                and len(h.args) == 2 and not h.keywords and isinstance(h.args[0], ast.Name) and isinstance(h.args[1], ast.Constant)
                and h.args[1].value == "word_fmt" and env.get(h.args[0].id, ("",))[0] in ("cls6g", "other6")):
            yes = (env[h.args[0].id][0] == "cls6g") != neg       # a dialect class has word_fmt, the `other object` of darg6 has not
            return self.block((s.body if yes else s.orelse) + rest, env, k, after)
        if (isinstance(t, ast.Compare) and len(t.ops) == 1 and isinstance(t.ops[0], (ast.Is, ast.IsNot)) and isinstance(t.left, ast.Name)
                and isinstance(t.comparators[0], ast.Constant) and t.comparators[0].value is None):
            x, isnot = t.left.id, isinstance(t.ops[0], ast.IsNot)
            ty = env.get(x, ("",))[0]
            if ty == "darg6":                     # split into the three kinds of argument; the test is decided inside each arm
                hc = self.fresh()
                nenv, cenv, oenv = dict(env), dict(env), dict(env)
                nenv[x], cenv[x], oenv[x] = ("none", None), ("cls6g", hc), ("other6", None)
                return ("omatch", env[x][1], [("D6None", [], self.block([s] + rest, nenv, k, after)),
                                              ("D6Class", [hc], self.block([s] + rest, cenv, k, after)),
                                              ("D6Other", [], self.block([s] + rest, oenv, k, after))])
            if ty in ("none", "cls6g", "other6"):
                yes = (ty == "none") != isnot
                return self.block((s.body if yes else s.orelse) + rest, env, k, after)
        return super().if_(s, rest, env, k, after)

    def isinstance_(self, s, t, neg, rest, env, k, after):
        x = t.args[0].id if len(t.args) == 2 and isinstance(t.args[0], ast.Name) else None
        if x is not None and isinstance(env.get(x, ("",))[0], str) and env.get(x, ("",))[0] in SRCG_IDCLASS and not t.keywords and isinstance(t.args[1], ast.Name):
            cls = SRCG_IDCLASS[env[x][0]]           # a parameter declared to be an OUI / IAB object: decided by the class hierarchy
            if cls not in self.mod.classes or t.args[1].id not in self.mod.classes or t.args[1].id in env:
                bad(s, "isinstance against %s, which is not a class of this module" % t.args[1].id)
            isa = t.args[1].id in self.mod.ancestors(cls)
            if not isa and cls in self.mod.ancestors(t.args[1].id):
                bad(s, "isinstance against %s, a subclass of %s" % (t.args[1].id, cls))
            return self.block((s.body if isa != neg else s.orelse) + rest, env, k, after)
        if (x is not None and env.get(x, ("",))[0] in ("int", "str") and not t.keywords and isinstance(t.args[1], ast.Name) and t.args[1].id == "str"
                and "str" not in env and not self.mod.toplevel("str") and x in [a.arg for a in self.f.args.args]):
            isa = env[x][0] == "str"                 # isinstance(<parameter declared int / str>, str): decided by the declared type
            return self.block((s.body if isa != neg else s.orelse) + rest, env, k, after)
        return super().isinstance_(s, t, neg, rest, env, k, after)

    def opnd_of(self, node, ty, t):
        """the operand term of an IPAddress / IPNetwork / IPRange valued expression"""
        if ty == "obj":
            return "(OAddr %s %s)" % (t[0], t[2])
        if ty == "net":
            return "(ONet (nver %s) (nval %s) (nplen %s))" % (t, t, t)
        if isinstance(ty, tuple) and ty[0] == "opnd" and ty[1] in KINDCLASS:
            return "(%s %s)" % (ty[1], " ".join(ty[2][f] for f in dict(OPERAND)[ty[1]]))
        bad(node, "%s where an IPAddress, IPNetwork or IPRange object is needed" % show(ty))

    def state_of(self, node, ty, t):
        """(class, state terms) of such an expression as the receiver of a translated method"""
        if ty == "obj":
            return "IPAddress", " ".join(t[:3])
        if ty == "net":
            return "IPNetwork", self.net_state(t)
        if isinstance(ty, tuple) and ty[0] == "opnd" and ty[1] in KINDCLASS:
            fl = ty[2]
            return KINDCLASS[ty[1]], " ".join([fl["ver"], "(width %s)" % fl["ver"]] + [fl[x] for x in dict(OPERAND)[ty[1]][1:]])
        bad(node, "%s where an IPAddress, IPNetwork or IPRange object is needed" % show(ty))

    def objname(self, node, env):
        """(type, term) of a NAME bound to a BaseIP object (also a refined operand, which Fn.rhs does not answer), else None"""
        if isinstance(node, ast.Name) and node.id in env and self.class_of_var(node.id, env) is not None:
            return env[node.id]
        return None

    def rhs(self, node, env):
        if isinstance(node, ast.Compare) and len(node.ops) == 1 and isinstance(node.ops[0], (ast.In, ast.Eq, ast.NotEq)):
            l, r = self.objname(node.left, env), self.objname(node.comparators[0], env)
            if l is not None and r is not None and isinstance(node.ops[0], ast.In) and r[0] != "obj":
                cls, state = self.state_of(node, *r)         # x in y: the translated __contains__ of y's class
                return self.generated(node, cls, "__contains__", state, [("operand", self.opnd_of(node, *l))])
            if l is not None and r is not None and not isinstance(node.ops[0], ast.In):
                cls, state = self.state_of(node, *l)         # x == y / x != y: the translated __eq__ / __ne__ of x's class
                return self.generated(node, cls, "__eq__" if isinstance(node.ops[0], ast.Eq) else "__ne__", state,
                                      [("operand", self.opnd_of(node, *r))])
        if (isinstance(node, ast.Compare) and len(node.ops) == 1 and isinstance(node.ops[0], ast.In) and isinstance(node.left, ast.Constant)
                and isinstance(node.left.value, str) and len(node.left.value) == 1 and 32 <= ord(node.left.value) < 127 and node.left.value != '"'
                and self.tr.out == "pysrc_ianab_gen.v"):
            ty, t = self.ex(node.comparators[0], env)        # 'c' in s
            if ty != "str":
                bad(node, "`in` on %s" % show(ty))
            return ("bool", "(contains_char \"%s\"%%char %s)" % (node.left.value, t))
        if (isinstance(node, ast.Subscript) and not isinstance(node.slice, ast.Slice) and isinstance(node.value, ast.Name)
                and env.get(node.value.id, ("",))[0] == "srec"):
            return ("out", "str", "(py_srec_get %s %s)" % (env[node.value.id][1], self.ex_str(node.slice, env)))      # d[k]: KeyError
        if isinstance(node, ast.Attribute) and dotted(node) in ("ieee." + x for x in SRCG_INDEX) and "ieee" not in env:
            return ("eindex", self.index_symbol(node))
        if (isinstance(node, ast.Compare) and len(node.ops) == 1 and isinstance(node.ops[0], ast.In)
                and dotted(node.comparators[0]) in ("ieee." + x for x in SRCG_INDEX) and "ieee" not in env):
            return ("bool", "(py_eidx_mem %s %s)" % (self.index_symbol(node.comparators[0]), self.int_(node.left, env)))
        if (isinstance(node, ast.Subscript) and not isinstance(node.slice, ast.Slice) and dotted(node.value) in ("ieee." + x for x in SRCG_INDEX)
                and "ieee" not in env):
            return ("out", ("list", Cell("zpair")), "(py_eidx_get %s %s)" % (self.index_symbol(node.value), self.int_(node.slice, env)))
        if (isinstance(node, ast.Attribute) and node.attr == "_value" and isinstance(node.value, ast.Name)
                and isinstance(env.get(node.value.id, ("",))[0], str) and env.get(node.value.id, ("",))[0] in SRCG_IDCLASS):
            return ("int", env[node.value.id][1])           # x._value of an OUI / IAB object x (represented by that integer)
        if (isinstance(node, ast.BinOp) and isinstance(node.op, ast.Mod) and isinstance(node.left, ast.Constant) and isinstance(node.left.value, str)
                and isinstance(node.right, ast.Name) and node.right.id == "self" and "self" not in env and self.recv
                and re.fullmatch(r"[ -$&-~]*%s[ -$&-~]*", node.left.value) and '"' not in node.left.value
                and self.tr.out == "pysrc_euig_gen.v"):
            a, b = node.left.value.split("%s")               # '<text>%s<text>' % self: str(self) = the translated __str__
            dstr = self.tr.get(self.recv, "__str__", node)
            dargs = []
            if getattr(dstr, "dialect_param", False):        # (EUI.__str__ reads the receiver's dialect: its first parameter)
                if "self._dialect" not in self.attrs:
                    bad(node, "str(self) needs the receiver's dialect, which this entry does not declare")
                dargs = [self.attrs["self._dialect"]]
            r = Fn.generated(self, node, self.recv, "__str__", self.state(env), dargs)
            if (r[1] if r[0] == "out" else r[0]) != "str":
                bad(node, "__str__ of %s is not translated as text" % self.recv)
            if r[0] == "out":
                h = self.fresh()
                self.hoist(node, ("bind", h, r[2]))
            else:
                h = r[1]
            return ("str", "(append \"%s\"%%string (append %s \"%s\"%%string))" % (a, h, b))
        if (isinstance(node, ast.BinOp) and isinstance(node.op, ast.Mod) and isinstance(node.left, ast.Constant) and isinstance(node.left.value, str)
                and re.fullmatch(r"[ -$&-~]*%r[ -$&-~]*", node.left.value) and '"' not in node.left.value and self.tr.out == "pysrc_sets_g_gen.v"):
            return self.format_r(node, env)
        if (isinstance(node, ast.BinOp) and isinstance(node.op, ast.Mod) and isinstance(node.left, ast.Constant) and isinstance(node.left.value, str)
                and re.fullmatch(r"(?:[ -$&-~]|%s|%d)*", node.left.value) and '"' not in node.left.value and "%" in node.left.value
                and self.tr.out != "pysrc_euig_gen.v"):
            return self.format_sd(node, env)
        if (isinstance(node, ast.BinOp) and isinstance(node.op, ast.Mod) and isinstance(node.left, ast.Constant) and isinstance(node.left.value, str)
                and re.fullmatch(r"[ -$&-~]*%o", node.left.value) and '"' not in node.left.value):
            e = self.int_(node.right, env)                   # '<text>%o' % e for an int e: the text followed by e in octal
            return ("str", "(py_fmt_oct \"%s\"%%string %s)" % (node.left.value[:-2], e))
        return super().rhs(node, env)

    def registration_of(self, node, prop, env):
        """self.oui.registration() / self.iab.registration() on an EUI receiver.  The translated property getter (units pysrc_eui_gen.v /
        pysrc_euib_gen.v) answers None or the INTEGER the identifier object is made from (CTOR_AS_ARG); here the object is really
        built: the translated constructor <C>.__init__:int on that integer (C = the class every `return` of the getter calls, default
        arguments), then the translated registration() on the finished object; None.registration() is AttributeError."""
        r = self.mod.lookup("EUI", prop)
        rets = [n.value for n in ast.walk(r[1]) if isinstance(n, ast.Return) and n.value is not None] if r and r[2] else []
        cs = {dotted(v.func) if isinstance(v, ast.Call) and len(v.args) == 1 and not v.keywords else None for v in rets}
        cls = cs.pop() if len(cs) == 1 else None
        if cls not in CTOR_AS_ARG or cls not in self.mod.classes:
            bad(node, "EUI.%s does not answer OUI(<int>) / IAB(<int>) objects only" % prop)
        g = self.tr.get("EUI", prop, node)
        if g.outcome or g.kind != "int" or not g.optional or g.params:
            bad(node, "unexpected translation of EUI.%s" % prop)
        if FILES.index(g.file) > FILES.index(self.file):
            bad(node, "%s lives in a later file" % g.cname)
        self.depfns.append(g)
        ctor, reg = self.tr.get(cls, "__init__:int", node), self.tr.get(cls, "registration", node)
        self.depfns += [ctor, reg]
        names = [a.arg for a in ctor.f.args.args][2:]                # parameters after (self, <the int>): their literal defaults
        dfl = ctor.f.args.defaults[len(ctor.f.args.defaults) - len(names):] if names else []
        extra = []
        for x, v in zip(names, dfl):
            if not (isinstance(v, ast.Constant) and isinstance(v.value, bool)):
                bad(node, "default of parameter %s of %s.__init__" % (x, cls))
            extra.append("true" if v.value else "false")
        if len(extra) != len(names) or len(ctor.params) != 1 + len(names):
            bad(node, "parameters of %s.__init__" % cls)
        rnames = [a.arg for a in reg.f.args.args][1:]
        rdfl = [const_int(v) for v in reg.f.args.defaults]
        if len(rdfl) != len(rnames) or None in rdfl:
            bad(node, "parameters of %s.registration" % cls)
        call = "(%s 0 %s)" % (ctor.cname, " ".join(["h0"] + extra))      # (the receiver value a constructor is handed is not read)
        regc = "(%s)" % " ".join([reg.cname, "(fst st)", "(snd st)"] + ["%d" % k for k in rdfl])
        if not reg.outcome:
            regc = "Ok %s" % regc
        term = "(match (%s %s) with None => Raise AttributeError | Some h0 => do st <- %s; %s end)" % (g.cname, self.state(env), call, regc)
        return ("out", "orec", term)

    def str_of_expr(self, node, env):
        """str(e) as '%s' prints it: text itself; an int in decimal; `self` / an IPAddress object through the translated __str__;
        `self.__class__.__name__` = the name of the receiver class (a subclass would print its own name: out of scope)"""
        if dotted(node) == "self.__class__.__name__" and self.recv and "self" not in env:
            return srcc_strlit(self.recv, node)
        if isinstance(node, ast.Name) and node.id == "self" and "self" not in env and self.recv:
            r = self.generated(node, self.recv, "__str__", self.state(env), [])
        else:
            ty, t = self.ex(node, env)
            if ty == "str":
                return t
            if ty == "int":
                return "(fmt_d %s)" % t
            if ty != "obj":
                bad(node, "%%s of %s" % show(ty))
            r = self.generated(node, "IPAddress", "__str__", " ".join(t[:3]), [])
        if (r[1] if r[0] == "out" else r[0]) != "str":
            bad(node, "__str__ is not translated as text")
        if r[0] != "out":
            return r[1]
        h = self.fresh()
        self.hoist(node, ("bind", h, r[2]))
        return h

    def format_r(self, node, env):
        """'<text>%r<text>' % <list of text>: Python's repr of a list of str (py_repr_strlist: each item in single quotes, joined by
        ', ', in brackets; Unsupported for an item that needs escaping -- no IP text does)"""
        a, b = node.left.value.split("%r")
        ty, t = self.ex(node.right, env)
        if not (is_list(ty) and ty[1].find().t == "str"):
            bad(node, "%%r of %s" % show(ty))
        h = self.fresh()
        self.hoist(node, ("bind", h, "(py_repr_strlist %s)" % t))
        return ("str", "(String.append %s (String.append %s %s))" % (srcc_strlit(a, node), h, srcc_strlit(b, node)))

    def format_sd(self, node, env):
        """'..%s..%d..' % (a, b) / % a: the pieces joined by String.append (right-nested), arguments left to right"""
        fmt = node.left.value
        args = node.right.elts if isinstance(node.right, ast.Tuple) else [node.right]
        parts = re.split(r"(%s|%d)", fmt)
        if len([x for x in parts if x in ("%s", "%d")]) != len(args):
            bad(node, "format string with %d conversions for %d arguments" % (len(parts) // 2, len(args)))
        terms, args = [], list(args)
        for x in parts:
            if x == "%s":
                terms.append(self.str_of_expr(args.pop(0), env))
            elif x == "%d":
                terms.append("(fmt_d %s)" % self.int_(args.pop(0), env))
            elif x:
                terms.append(srcc_strlit(x, node))
        out = terms[-1]
        for t in reversed(terms[:-1]):
            out = "(String.append %s %s)" % (t, out)
        return ("str", out)

    def generated(self, node, recv, name, state, args):
        r = super().generated(node, recv, name, state, args)
        d = self.depfns[-1]
        if getattr(d, "uses_be", False) or getattr(d, "g_uses_be", False):      # the callee takes the socket back-end first (CtorFn / FnG)
            self.g_uses_be = True
            r = r[:-1] + (r[-1].replace("(%s" % d.cname, "(%s be" % d.cname, 1),)
        return r

    def text(self):
        t = super().text()
        if getattr(self, "g_uses_be", False):
            if self.loops:
                bad(self.f, "loop in a function that depends on the socket back-end")
            head = "\nDefinition %s " % self.cname
            if t.count(head) != 1:
                bad(self.f, "cannot place the back-end parameter of %s" % self.cname)
            t = t.replace(head, head + "(be : backend) ", 1)
        return t

    def ctor(self, node, cls, env):
        if cls == "IPAddress" and len(node.args) == 1 and not node.keywords and self.tr.out == "pysrc_ianab_gen.v":
            t = self.ex_str(node.args[0], env)               # IPAddress(<text>): the translated constructor __init__:str with its defaults
            d = self.tr.get("IPAddress", "__init__:str", node)
            if [x.arg for x in d.f.args.args][1:] != ["addr", "version", "flags"] or [
                    (x.value if isinstance(x, ast.Constant) else x) for x in d.f.args.defaults] != [None, 0]:
                bad(node, "IPAddress.__init__ is not (self, addr, version=None, flags=0)")
            return self.generated(node, "IPAddress", "__init__:str", "", [("str", t), ("optint", "None"), ("int", "0")])
        if cls == "IPNetwork" and len(node.args) == 1 and not node.keywords and not isinstance(node.args[0], ast.Tuple):
            snap, pre0 = self.snapshot(), list(self.pre)
            ty, t = self.ex(node.args[0], env)
            if ty == "str":                                  # IPNetwork(<text>): the translated constructor __init__:str, defaults filled in
                d = self.tr.get("IPNetwork", "__init__:str", node)
                names = [a.arg for a in d.f.args.args][1:]
                dfl = dict(zip(names[len(names) - len(d.f.args.defaults):], d.f.args.defaults))
                args = [(ty, t)]
                for x, (_, pty) in list(zip(names, d.params))[1:]:
                    v = dfl.get(x)
                    if not isinstance(v, ast.Constant):
                        bad(node, "parameter %s of IPNetwork.__init__ has no constant default" % x)
                    if v.value is None and pty == "optint":
                        args.append(("optint", "None"))
                    elif isinstance(v.value, bool) and pty == "bool":
                        args.append(("bool", "true" if v.value else "false"))
                    elif isinstance(v.value, int) and not isinstance(v.value, bool) and pty == "int":
                        args.append(("int", "%d" % v.value if v.value >= 0 else "(%d)" % v.value))
                    else:
                        bad(node, "default of parameter %s of IPNetwork.__init__" % x)
                return self.generated(node, "IPNetwork", "__init__:str", "", args)
            self.restore(snap)
            self.pre = pre0
        return super().ctor(node, cls, env)

    def module_dispatch(self, node, env):
        """self._module.f(args, kw=..) on an IPAddress receiver: the strategy module is _ipv4 or _ipv6, told apart by their version
        constants; f is the definition translated by a unit over that module's file, arguments by the callee's signature"""
        f, alts, kind = node.func, [], None
        for m in ("ipv4", "ipv6"):
            if self.mod.imports.get("_" + m) != "netaddr.strategy." + m:
                bad(node, "self._module.%s(..) in a file that does not import _%s" % (f.attr, m))
            d = None
            for t in BY_MODULE_ALL.get("netaddr.strategy." + m, ()):
                if any(k[0] is None and k[1] == f.attr for k in t.specs):
                    d = t.get(None, f.attr, node)
            if d is None or FILES.index(d.file) > FILES.index(self.file) or d.optional or d.mutating:
                bad(node, "_%s.%s is not translated (or not usable here)" % (m, f.attr))
            self.depfns.append(d)
            names = [a.arg for a in d.f.args.args]
            given = dict(zip(names, node.args))
            for kw in node.keywords:
                if kw.arg is None or kw.arg in given or kw.arg not in names:
                    bad(node, "unsupported keyword argument")
                given[kw.arg] = kw.value
            if len(node.args) > len(names) or set(given) != set(names) or len(names) != len(d.params):
                bad(node, "argument list of %s" % d.cname)
            terms = []
            for x, (_, pty) in zip(names, d.params):
                npre = len(self.pre)
                ty, t = self.ex(given[x], env)
                if len(self.pre) != npre and alts:
                    bad(node, "argument of self._module.%s(..) that can raise" % f.attr)
                if coqty(pty, node) == "unit" and ty in ("none", "cls6g"):
                    t = "tt"                                 # a parameter the callee never reads (translated with type unit)
                elif pty == "optcls6" and ty in ("none", "cls6g"):
                    t = "None" if ty == "none" else "(Some %s)" % t
                else:
                    unify(node, ty, pty, "argument of %s" % d.cname)
                terms.append(t)
            if d.__dict__.get("srcc_be"):
                self.g_uses_be = True
                terms.insert(0, "be")
            kd = d.kind
            if kind is not None:
                unify(node, kd, kind, "results of the two strategy modules")
            kind = kd
            call = "(%s)" % " ".join([d.cname] + terms)
            alts.append(("src_%s_version" % m, call if d.outcome else "Ok %s" % call))
        ver = self.attrs["self._module.version"][1]
        return ("out", kind, "(if (%s =? %s) then %s else if (%s =? %s) then %s else Raise Unsupported)" % (
            ver, alts[0][0], alts[0][1], ver, alts[1][0], alts[1][1]))

    def strategy_call(self, node, env):
        """_ipv4.f(args) / _ipv6.f(args) for the strategy modules the file imports: the function f translated by a unit over that
        module's file; omitted trailing parameters take their literal default (None for a parameter of Coq type unit: tt)"""
        f = node.func
        m = f.value.id[1:]
        if self.mod.imports.get(f.value.id) != "netaddr.strategy." + m or f.value.id in env or node.keywords:
            bad(node, "call of %s.%s" % (f.value.id, f.attr))
        d = None
        for t in BY_MODULE_ALL.get("netaddr.strategy." + m, ()):
            if any(k[0] is None and k[1] == f.attr for k in t.specs):
                d = t.get(None, f.attr, node)
        if d is None:
            bad(node, "%s.%s is not translated" % (f.value.id, f.attr))
        if FILES.index(d.file) > FILES.index(self.file):
            bad(node, "%s lives in a later file" % d.cname)
        self.depfns.append(d)
        names = [a.arg for a in d.f.args.args]
        dfl = dict(zip(names[len(names) - len(d.f.args.defaults):], d.f.args.defaults))
        args = [self.ex(x, env) for x in node.args]
        for x, (_, pty) in list(zip(names, d.params))[len(args):]:
            v = dfl.get(x)
            if not (isinstance(v, ast.Constant) and v.value is None and coqty(pty, node) == "unit"):
                bad(node, "omitted parameter %s of %s" % (x, d.cname))
            args.append((pty, "tt"))
        if len(args) != len(d.params):
            bad(node, "argument list of %s" % d.cname)
        for (ty, _), (_, pty) in zip(args[:len(node.args)], d.params):
            unify(node, ty, pty, "argument of %s" % d.cname)
        if d.__dict__.get("srcc_be") or d.optional or d.mutating:
            bad(node, "%s uses the socket back-end, may return None or assigns state" % d.cname)
        term = "(%s)" % " ".join([d.cname] + [t for _, t in args])
        return ("out", d.kind, term) if d.outcome else (d.kind, term)

    def index_symbol(self, node):
        """ieee.OUI_INDEX / ieee.IAB_INDEX inside a function that imports `ieee` from netaddr.eui: the Section variable of that name
        (netaddr/eui/ieee.py must bind the name once at top level, by `NAME = {}`)"""
        name = node.attr
        imp = [st for st in ast.walk(self.mod.lookup(self.recv, self.pyname)[1]) if isinstance(st, ast.ImportFrom)] if self.recv else []
        if not any(st.module == "netaddr.eui" and [(a.name, a.asname) for a in st.names] == [("ieee", None)] for st in imp) or self.mod.toplevel("ieee"):
            bad(node, "ieee is not the module netaddr.eui.ieee imported inside this function")
        CURFILE.append(SRCG_INDEX[name])
        try:
            m = Module(SRCG_INDEX[name])
            ds = [a for a in m.tree.body for x in ast.walk(a) if isinstance(x, ast.Name) and x.id == name and isinstance(x.ctx, ast.Store)]
            if not (len(ds) == 1 and isinstance(ds[0], ast.Assign) and len(ds[0].targets) == 1 and isinstance(ds[0].value, ast.Dict) and not ds[0].value.keys):
                bad(ds[-1] if ds else None, "%s is not bound once, at top level, by `%s = {}`" % (name, name))
        finally:
            CURFILE.pop()
        return name

    def finish(self):
        rets = [l for l in self.leaves(self.ir) if l[0] == "ret" and l[1] != "@loop"]
        if not rets and not self.lrets and self.ir[0] == "raise" and self.tr.out == "pysrc_sets_g_gen.v":
            # a method whose body is one `raise`: it answers nothing; the definition is `Raise E` at type outcome unit
            self.kind = self.retkind = "none"
            self.optional, self.outcome, self.type, self.fresh = False, True, "outcome unit", False
            return
        super().finish()

    def return_(self, s, env):
        v = s.value
        if (self.tr.out == "pysrc_sets_g_gen.v" and isinstance(v, ast.Tuple) and len(v.elts) == 3 and dotted(v.elts[0]) == "self.__class__"
                and isinstance(v.elts[1], ast.Tuple) and not v.elts[1].elts and "self" not in env):
            # return self.__class__, (), <state>  (__reduce__): the class and the empty argument tuple are constants of the method; the
            # definition answers the third component, the state handed to __setstate__
            r = self.rhs(v.elts[2], env)
            ty = r[1] if r[0] == "out" else r[0]
            if not is_value(ty):
                bad(s, "state of kind %s" % show(ty))
            return self.wrap(self.take_pre(), self.leaf(env, ty, r[2] if r[0] == "out" else r[1], r[0] == "out"))
        return super().return_(s, env)

    def ex_str(self, node, env):
        ty, t = self.ex(node, env)
        if ty != "str":
            bad(node, "text expected, got %s" % show(ty))
        return t

    def listcomp(self, node, env):
        g = node.generators
        if (len(g) == 1 and not g[0].ifs and not g[0].is_async and isinstance(g[0].target, ast.Name) and g[0].target.id not in env
                and self.builtin_call(node.elt, "str", env, 1) and isinstance(node.elt.args[0], ast.Name)
                and node.elt.args[0].id == g[0].target.id and self.tr.out == "pysrc_sets_g_gen.v"):
            ty, t = self.ex(g[0].iter, env)              # [str(c) for c in l] for IPNetwork objects: the translated IPNetwork.__str__ of each
            if not (is_list(ty) and ty[1].find().t == "net"):
                bad(node, "[str(c) for c in l] over %s" % show(ty))
            r = self.generated(node, "IPNetwork", "__str__", self.net_state("c"), [])
            if r[0] != "out" or r[1] != "str":
                bad(node, "IPNetwork.__str__ is not translated as text that can raise")
            return ("out", ("list", Cell("str")), "(py_map_og (fun c => %s) %s)" % (r[2], t))
        if (len(g) == 1 and not g[0].ifs and not g[0].is_async and isinstance(g[0].target, ast.Name) and g[0].target.id not in env
                and self.builtin_call(node.elt, "str", env, 1) and self.builtin_call(node.elt.args[0], "int", env, 1)
                and isinstance(node.elt.args[0].args[0], ast.Name) and node.elt.args[0].args[0].id == g[0].target.id):
            ty, t = self.ex(g[0].iter, env)              # [str(int(x)) for x in xs]: the decimal text of each item, ValueError at the first bad one
            if is_list(ty) and ty[1].find().t == "str":
                return ("out", ("list", Cell("str")), "(py_map_og (fun x => do n <- py_int_o 10 x; Ok (fmt_d n)) %s)" % t)
            bad(node, "[str(int(x)) for x in xs] over %s" % show(ty))
        if (len(g) == 1 and not g[0].ifs and not g[0].is_async and isinstance(g[0].target, ast.Name) and g[0].target.id not in env
                and self.builtin_call(node.elt, "int", env, 1) and isinstance(node.elt.args[0], ast.Name)
                and node.elt.args[0].id == g[0].target.id):
            ty, t = self.ex(g[0].iter, env)              # [int(x) for x in xs] for a list of text: ValueError at the first bad item
            if is_list(ty) and ty[1].find().t == "str":
                return ("out", ("list", Cell("int")), "(py_map_og (py_int_o 10) %s)" % t)
            bad(node, "[int(x) for x in xs] over %s" % show(ty))
        return super().listcomp(node, env)

    def assign(self, s, env, go):
        tgt = s.targets[0] if isinstance(s, ast.Assign) and len(s.targets) == 1 else None
        if isinstance(tgt, ast.Tuple) and len(tgt.elts) == 3 and all(isinstance(x, ast.Name) for x in tgt.elts) and isinstance(s.value, ast.ListComp):
            r = self.rhs(s.value, env)                   # (a, b, c) = <list of ints>: ValueError unless it has three items
            if r[0] == "out" and is_list(r[1]) and r[1][1].find().t == "int":
                pre, names = self.take_pre(), []
                for x in tgt.elts:
                    cn, env = self.bind_local(x, x.id, "int", env, s.value)
                    names.append(cn)
                return self.wrap(pre, ("bind", pattern(names), "(do h0 <- %s; py_triple_of_list h0)" % r[2], go(env)))
            bad(s, "unpacking of %s" % show(r[1] if r[0] == "out" else r[0]))
        if (isinstance(tgt, ast.Name) and isinstance(s.value, ast.Call) and dotted(s.value.func) == "IPRange" and "IPRange" not in env
                and self.mod.imports.get("IPRange") == "netaddr.ip.IPRange" and len(s.value.args) == 2 and not s.value.keywords):
            a, b = self.ex_str(s.value.args[0], env), self.ex_str(s.value.args[1], env)
            d = self.tr.get("IPRange", "__init__:str", s)     # x = IPRange(<text>, <text>): the translated constructor, flags = its default
            if [x.arg for x in d.f.args.args][1:] != ["start", "end", "flags"] or [const_int(x) for x in d.f.args.defaults] != [0]:
                bad(s, "IPRange.__init__ is not (self, start, end, flags=0)")
            r = self.generated(s, "IPRange", "__init__:str", "", [("str", a), ("str", b), ("int", "0")])
            if r[0] != "out" or r[1] != ("tup", ("int", "int", "int")) and show(r[1]) != "tuple (int, int, int)":
                bad(s, "unexpected translation of IPRange.__init__:str: %s" % show(r[1]))
            pre, h = self.take_pre(), self.fresh()
            self.coqname(tgt, tgt.id)
            env = dict(env)
            env[tgt.id] = (("opnd", "ORng", {"ver": "(fst (fst %s))" % h, "s": "(snd (fst %s))" % h, "e": "(snd %s)" % h}), None)
            return self.wrap(pre, ("bind", h, r[2], go(env)))
        if isinstance(tgt, ast.Tuple) and len(tgt.elts) == 2 and all(isinstance(x, ast.Name) for x in tgt.elts):
            snap, pre0 = self.snapshot(), list(self.pre)
            r = self.rhs(s.value, env)
            ty = r[1] if r[0] == "out" else r[0]
            if is_list(ty) and ty[1].find().t == "str" and r[0] != "out":      # (a, b) = <list of text>: ValueError unless two items
                pre, names = self.take_pre(), []
                for x in tgt.elts:
                    cn, env = self.bind_local(x, x.id, "str", env, s.value)
                    names.append(cn)
                return self.wrap(pre, ("bind", pattern(names), "(py_unpack2g %s)" % r[1], go(env)))
            if ty == "zpair":                                # (a, b) = <an (offset, size) pair>
                pre, names = self.take_pre(), []
                for x in tgt.elts:
                    cn, env = self.bind_local(x, x.id, "int", env, s.value)
                    names.append(cn)
                return self.wrap(pre, ("let", pattern(names), r[1], go(env)))
            if ty == "tuple" and r[0] == "out":              # a, b = <a translated method answering a tuple of ints>: ValueError unless 2
                pre, names = self.take_pre(), []
                for x in tgt.elts:
                    cn, env = self.bind_local(x, x.id, "int", env, s.value)
                    names.append(cn)
                return self.wrap(pre, ("bind", pattern(names), "(do h0 <- %s; py_pair_of_list h0)" % r[2], go(env)))
            self.restore(snap)
            self.pre = pre0
        return super().assign(s, env, go)

    def iana_key(self, node):
        """the literal key K of IANA_INFO[K]: one of the keys of the module-level dict literal IANA_INFO (bound once, each value {})"""
        ds = [a for a in self.mod.tree.body for n in ast.walk(a) if isinstance(n, ast.Name) and n.id == "IANA_INFO" and isinstance(n.ctx, ast.Store)]
        v = ds[0].value if len(ds) == 1 and isinstance(ds[0], ast.Assign) and len(ds[0].targets) == 1 else None
        if not (isinstance(v, ast.Dict) and all(isinstance(kk, ast.Constant) and isinstance(kk.value, str) for kk in v.keys)
                and all(isinstance(x, ast.Dict) and not x.keys for x in v.values)):
            bad(node, "IANA_INFO is not bound once, at top level, to a dict literal of empty dicts")
        if not (isinstance(node, ast.Constant) and isinstance(node.value, str) and node.value in [kk.value for kk in v.keys]):
            bad(node, "IANA_INFO[..] with something other than one of its literal keys")
        return srcc_strlit(node.value, node)

    def call(self, node, env):
        f = node.func
        name = f.id if isinstance(f, ast.Name) else None
        if name == "__g_sd_new":
            return ("sdict", "py_sd_new")
        if (isinstance(f, ast.Attribute) and f.attr == "bit_length" and not node.args and not node.keywords and self.tr.out == "pysrc_core_gen.v"):
            return ("int", "(py_num_bits %s)" % self.int_(f.value, env))      # int.bit_length(): SrcPreludeCmp.py_num_bits (Order.num_bits)
        if (self.tr.out == "pysrc_sets_g_gen.v" and self.builtin_call(node, "sorted", env, 1) and isinstance(node.args[0], ast.Name)
                and env.get(node.args[0].id, ("",))[0] == "dict"):
            # sorted(d) for the dict of an IPSet: its keys sorted by IPNetwork ordering (SrcPreludeSets.py_sorted_nets = Sets.sorted)
            return (("list", Cell("net")), "(py_sorted_nets %s)" % env[node.args[0].id][1])
        if (self.tr.out == "pysrc_sets_g_gen.v" and dotted(f) == "_itertools.chain" and FnF.plain_import(self, "_itertools", "itertools")
                and len(node.args) == 1 and isinstance(node.args[0], ast.Starred) and not node.keywords):
            ty, t = self.ex(node.args[0].value, env)         # itertools.chain(*l) for a list of IPNetwork objects: the iterator over the
            if not (is_list(ty) and ty[1].find().t == "net"):        # addresses of one after the other, as the list of what it yields
                bad(node, "itertools.chain(*l) over %s" % show(ty))
            return (("list", Cell("objv")), "(py_flat_addrs %s)" % t)
        if name == "__g_dict_item":
            kt = self.objname(node.args[0], env)
            if kt is None:
                bad(node, "self.dct[k] = v for a key that is not an IPNetwork / IPRange / IPAddress object")
            ty, t = kt
            key = ("(IKNet %s)" % t if ty == "net" else "(IKAddr %s)" % t[3] if ty == "obj" else
                   "(IKRange %s %s %s)" % (ty[2]["ver"], ty[2]["s"], ty[2]["e"]) if ty[1] == "ORng" else None)
            vt, v = self.ex(node.args[1], env)
            if key is None or vt != "srec":
                bad(node, "self.dct[k] = v with a %s value" % show(vt))
            return (("tup", ("ikv", "srec")), "(%s, %s)" % (key, v))
        if (isinstance(f, ast.Attribute) and not node.keywords and f.attr in ("split", "strip", "join") and self.tr.out == "pysrc_ianab_gen.v"):
            ty, t = self.ex(f.value, env)
            if ty != "str":
                bad(node, "%s() on %s" % (f.attr, show(ty)))
            if f.attr == "strip" and not node.args:
                return ("str", "(py_strip %s)" % t)          # s.strip(): white space off both ends
            if f.attr == "split" and len(node.args) == 1 and isinstance(node.args[0], ast.Constant) and isinstance(node.args[0].value, str) and len(node.args[0].value) == 1:
                return (("list", Cell("str")), "(split %s %s)" % (srcc_charlit(node.args[0].value, node), t))
            if f.attr == "join" and len(node.args) == 1:
                lty, l = self.ex(node.args[0], env)
                unify(node, lty, ("list", Cell("str")), "argument of join")
                return ("str", "(join %s %s)" % (t, l))
            bad(node, "%s() with an unsupported argument list" % f.attr)
        if name == "__g_flat_addrs":
            ty, t = self.ex(node.args[0], env)           # the addresses of the IPNetwork objects of a list, block after block
            if not (is_list(ty) and ty[1].find().t == "net"):
                bad(node, "`for x in E: for y in x: yield y` over %s" % show(ty))
            return (("list", Cell("objv")), "(py_flat_addrs %s)" % t)
        if name == "__g_csv_rows":
            ty, t = self.ex(node.args[0], env)
            unify(node, ty, ("list", Cell("str")), "lines handed to csv.reader")
            return (("list", Cell(("list", Cell("str")))), "(CSV_READER %s)" % t)
        if name in ("__g_sd_setdefault", "__g_sd_append") and self.ex(node.args[0], env)[0] == "eindex":
            (_, d), kk = self.ex(node.args[0], env), self.int_(node.args[1], env)
            if name == "__g_sd_setdefault":                 # index.setdefault(k, [])
                return ("eindex", "(py_eidx_setdefault %s %s)" % (d, kk))
            x = node.args[2]                                 # index[k].append((a, b)): KeyError without k
            if not (isinstance(x, ast.Tuple) and len(x.elts) == 2):
                bad(node, "index[k].append(x) for x other than a pair")
            return ("out", "eindex", "(py_eidx_append %s %s (%s, %s))" % (d, kk, self.int_(x.elts[0], env), self.int_(x.elts[1], env)))
        if name in ("__g_sd_setdefault", "__g_sd_append"):
            (td, d), (tk, kk) = self.ex(node.args[0], env), self.ex(node.args[1], env)
            if td != "sdict" or tk != "str":
                bad(node, "setdefault / append on %s with a key of kind %s" % (show(td), show(tk)))
            if name == "__g_sd_setdefault":                 # d.setdefault(k, []): a new empty list under k unless k is present
                return ("sdict", "(py_sd_setdefault %s %s)" % (d, kk))
            tx, x = self.ex(node.args[2], env)               # d[k].append(x): KeyError without k
            if tx != "irec":
                bad(node, "d[k].append(x) for x of kind %s" % show(tx))
            return ("out", "sdict", "(py_sd_append %s %s %s)" % (d, kk, x))
        if name == "__g_iana_items":
            return (("list", Cell("ikey")), "(IANA_INFO %s)" % self.iana_key(node.args[0]))
        if name in ("__g_item_key", "__g_item_value"):       # the two components of a dictionary item: the same row, seen as key / as record
            ty, t = self.ex(node.args[0], env)
            if ty != "ikey":
                bad(node, "dictionary item of kind %s" % show(ty))
            return ("ikey" if name == "__g_item_key" else "irec", t)
        if name == "__g_file_read":
            fname = srcc_strlit(node.args[0].value, node)
            return ("str", "(REGISTRY_FILE %s %s %s)" % (fname, self.int_(node.args[1], env), self.int_(node.args[2], env)))
        if name == "__g_rec_new":
            items = [self.ex(x, env) for x in node.args]
            want = ["int", "str", "str", "liststr", "int", "int"]
            got = [("liststr" if is_list(ty) else ty) for ty, _ in items]
            if got != want:
                bad(node, "record literal with values of kinds %s" % got)
            unify(node, items[3][0], ("list", Cell("str")), "address list of a record")
            return ("orec", "(%s)" % ", ".join(t for _, t in items))
        if name == "__g_rec_set":
            (tr_, r), key = self.ex(node.args[0], env), node.args[1].value
            keys = SRCG_REC_KEYS[self.recv]
            if tr_ != "orec" or key not in keys or SRCG_REC_TYPES[keys.index(key)] != "int":
                bad(node, "record[%r] = .. on %s" % (key, show(tr_)))
            return ("orec", "(py_rec_set %s %d %s)" % (r, keys.index(key), self.int_(node.args[2], env)))
        if name == "__g_parse_data":
            d = self.tr.get(self.recv, "_parse_data", node)          # translated by the SRCF unit pysrc_euic_gen.v
            if FILES.index(d.file) > FILES.index(self.file):
                bad(node, "%s lives in a later file" % d.cname)
            self.deps.add((self.recv, "_parse_data"))
            self.depfns.append(d)
            v = self.int_(node.args[0], env)
            rest_ = node.args[(2 if self.recv == "IAB" else 1):]
            args = [self.ex(x, env) for x in rest_]
            want = [("str" if i == 0 else "int") for i in range(3)]
            if [ty for ty, _ in args] != want or not d.outcome or len(d.params) != (3 if self.recv == "OUI" else 9):
                bad(node, "unexpected shape of the translated %s._parse_data" % self.recv)
            call = " ".join([d.cname, v] + [t for _, t in args])
            if self.recv == "IAB":
                rty, r = self.ex(node.args[1], env)
                if rty != "orec":
                    bad(node, "self.record is %s" % show(rty))
                call = "let '(r_idx, r_id, r_org, r_address, r_offset, r_size) := %s in %s r_idx r_id r_org r_address r_offset r_size" % (r, call)
            return ("out", "orec", "(%s)" % call)
        if (isinstance(f, ast.Attribute) and dotted(f) == "self." + f.attr and (self.recv, f.attr) in SRCF_CLASSMETHODS and "self" not in env):
            d = self.tr.get(self.recv, f.attr, node)                 # a classmethod that reads only class constants (SRCF_CLASSMETHODS)
            names = [x.arg for x in d.f.args.args][1:]
            given = dict(zip(names, node.args))
            for kw in node.keywords:
                if kw.arg is None or kw.arg in given or kw.arg not in names:
                    bad(node, "unsupported keyword argument")
                given[kw.arg] = kw.value
            if len(node.args) > len(names) or set(given) != set(names) or len(d.params) != len(names):
                bad(node, "argument list of %s" % d.cname)
            self.deps.add((self.recv, f.attr))
            self.depfns.append(d)
            args = [self.ex(given[x], env) for x in names]
            for (ty, _), (_, pty) in zip(args, d.params):
                unify(node, ty, pty, "argument of %s" % d.cname)
            term = "(%s)" % " ".join([d.cname] + [t for _, t in args])
            return ("out", d.kind, term) if d.outcome else (d.kind, term)
        if (isinstance(f, ast.Name) and name == "_is_int" and name not in env and self.mod.imports.get(name) == "netaddr.compat._is_int"
                and len(node.args) == 1 and not node.keywords and compat_lambda_isinstance("_is_int")):
            ty, _ = self.ex(node.args[0], env)                       # _is_int(x): decided by the type
            if ty not in ("int", "str"):
                bad(node, "_is_int of %s" % show(ty))
            return ("bool", "true" if ty == "int" else "false")
        if (isinstance(f, ast.Attribute) and isinstance(f.value, ast.Name) and f.value.id in ("_ipv4", "_ipv6")
                and self.tr.out == "pysrc_ipg_gen.v"):
            return self.strategy_call(node, env)
        if (isinstance(f, ast.Attribute) and dotted(f.value) == "self._module" and self.tr.out == "pysrc_ipg_gen.v" and self.recv == "IPAddress"
                and "self" not in env and node.keywords):
            return self.module_dispatch(node, env)
        if name == "__g_info_new":
            ty, t = self.ex(node.args[0], env)
            if ty != "orec":
                bad(node, "{'OUI': e} for e of kind %s" % show(ty))
            return ("einfo", "(%s, None)" % t)
        if name == "__g_info_iab":
            (td, d), (ty, t) = self.ex(node.args[0], env), self.ex(node.args[1], env)
            if td != "einfo" or ty != "orec":
                bad(node, "d['IAB'] = e on %s with e of kind %s" % (show(td), show(ty)))
            return ("einfo", "(fst %s, Some %s)" % (d, t))
        if (isinstance(f, ast.Attribute) and f.attr == "registration" and not node.args and not node.keywords and self.recv == "EUI"
                and isinstance(f.value, ast.Attribute) and dotted(f.value) in ("self.oui", "self.iab") and "self" not in env):
            return self.registration_of(node, f.value.attr, env)
        if (name == "DictDotLookup" and name not in env and self.mod.imports.get(name) == "netaddr.core.DictDotLookup" and len(node.args) == 1
                and not node.keywords):
            ty, t = self.ex(node.args[0], env)               # DictDotLookup(d): the attribute view of the dict d, represented by d itself
            if ty not in ("orec", "einfo"):
                bad(node, "DictDotLookup of %s" % show(ty))
            return (ty, t)
        if (isinstance(f, ast.Attribute) and isinstance(f.value, ast.Name) and f.value.id != "self" and not node.keywords
                and env.get(f.value.id, ("",))[0] == "obj"):
            r = self.tr.modof("IPAddress").lookup("IPAddress", f.attr)      # x.m(..) for an IPAddress object x: the translated method
            if r and not r[2]:
                return self.generated(node, "IPAddress", f.attr, " ".join(env[f.value.id][1][:3]), [("int", self.int_(a, env)) for a in node.args])
        return super().call(node, env)

    def callfn(self, node, name, env):
        if node.keywords:
            bad(node, "keyword arguments in a call of %s" % name)
        args = [self.ex(x, env) for x in node.args]          # an IPAddress object is handed over as its pair
        return self.generated(node, None, name, "", [(ty, t[3]) if ty == "obj" else (ty, t) for ty, t in args])


FN_CLASS.update({u[1]: FnG for u in SRCG_UNITS if u[1] not in SRCG_PLAIN_FN})


# ---- SRCG: netaddr/compat.py.  Every compat name whose reading the translator only justified by "it is imported from netaddr.compat"
# is checked here against the binding the translator assumes (the Python 3 branch, the first binding in the file; the Python 2
# branch is dead on every supported interpreter): name -> the source text its first binding must be equal to (as an AST).
# A name whose binding differs is REMOVED from the import table of every parsed module, so that exactly the functions that use it
# stop translating (each use site tests `imports.get(name) == "netaddr.compat.<name>"`): fail closed, scoped.
SRCG_COMPAT_EXPECT = {
    "_int_type": "_int_type = int",
    "_str_type": "_str_type = str",
    "_dict_keys": "_dict_keys = lambda x: list(x.keys())",
    "_dict_items": "_dict_items = lambda x: list(x.items())",
    "_iter_next": "def _iter_next(x):\n    return next(x)",
    "_range": "def _range(*args, **kwargs):\n    return list(range(*args, **kwargs))",
    "_bytes_join": "def _bytes_join(*args):\n    return ''.encode().join(*args)",
    "_importlib_resources": "from importlib import resources as _importlib_resources",
}
SRCG_COMPAT_CACHE = {}


def srcg_compat_bad_names():
    """the names of SRCG_COMPAT_EXPECT whose first binding in netaddr/compat.py is not the expected one (cached per file text)"""
    fn = os.path.join(REPO, "netaddr/compat.py")
    text = open(fn, encoding="utf-8").read()
    if SRCG_COMPAT_CACHE.get("text") != text:
        tree, badn = ast.parse(text), set()
        for name, want in SRCG_COMPAT_EXPECT.items():
            binds = [n for n in ast.walk(tree) if (isinstance(n, (ast.FunctionDef, ast.ClassDef)) and n.name == name)
                     or (isinstance(n, (ast.Import, ast.ImportFrom)) and any((a.asname or a.name) == name for a in n.names))
                     or (isinstance(n, (ast.Assign, ast.AugAssign, ast.AnnAssign)) and any(
                         isinstance(t, ast.Name) and t.id == name and isinstance(t.ctx, ast.Store) for t in ast.walk(n)))]
            binds.sort(key=lambda n: n.lineno)
            w = ast.parse(want).body[0]
            if not binds or ast.dump(binds[0]) != ast.dump(w):
                badn.add(name)
        SRCG_COMPAT_CACHE["text"], SRCG_COMPAT_CACHE["bad"] = text, badn
    return SRCG_COMPAT_CACHE["bad"]


_module_init_before_SRCG = Module.__init__


def _srcg_module_init(self, fn):
    _module_init_before_SRCG(self, fn)
    for name in srcg_compat_bad_names():
        if self.imports.get(name) == "netaddr.compat." + name:
            del self.imports[name]


Module.__init__ = _srcg_module_init


# ---- SRCG: IPGlob.__repr__ (netaddr/ip/glob.py), read by a subclass of FnB (the reader of the glob unit) that adds one reading:
# `self.__class__.__name__` = the name of the receiver class (a subclass would print its own name: out of scope)
class FnGB(FnB):
    def rhs(self, node, env):
        if dotted(node) == "self.__class__.__name__" and self.recv and "self" not in env and isinstance(node.ctx, ast.Load):
            return ("str", srcc_strlit(self.recv, node))
        return super().rhs(node, env)


FnGB.__name__ = "FnB"           # (Translator.get recognises the readers of the SRCB units by this name: PURE_EXTRA)
SRCG_GLOB_UNIT = ("netaddr/ip/glob.py", "pysrc_globg_gen.v", "", " Base.PyStr Model.SrcPreludeStr Model.SrcPreludeGlob", [("IPGlob", "__repr__", {})])
UNITS = UNITS + [SRCG_GLOB_UNIT]
FILES = FILES + (SRCG_GLOB_UNIT[1],)
FN_CLASS[SRCG_GLOB_UNIT[1]] = FnGB
