"""Generated structure tables: what the source translator does NOT read from a function's body.

harness/gen/pysrc.py translates function BODIES.  A function's behaviour for its callers also depends on things around the body:
the parameter list (names, order, DEFAULT VALUES, *args / keyword-only), the decorators, and, for a class, its bases and the
statements of the class body that are not `def`s (aliases such as `__radd__ = __add__`, `__slots__`, `name = property(..)`, class
attributes), and on which functions exist at all (a new `__copy__`, `__reduce__`, `__eq__` or `__ior__` changes what the interpreter
calls).  This generator re-reads, on every run and by `ast` only, every non-test source file of netaddr and emits per file AND top-level name (a class with everything inside it, or a module-level function with its inner functions)
  gen_struct_<file>__<Top> : list (string * string)
with one row per function ("def <Qualified.name>", "<decorators> (<parameter list as written>)") and one row per class
("class <Name>", "(<bases>) <non-def statements of the class body, docstring removed, joined by ' ; '>"), in source order.
For each property Cxx, Proofs/GenOk_Structure_Cxx.v pins the lists of the groups that property relies on (table RELEVANT below) to the
literals the models, the adapters and the translator tables were written against (`reflexivity`), and Props/Structure_Cxx.v states
them; it is an obligation of check Cxx (harness/core.py).  A changed default, a new or removed method, an alias or a decorator therefore breaks an obligation even
when no translated body changed.  tools/mkstructure.py rewrites the pinned literals from the current tree (run it after a `fix:`
commit, like tools/mkfingerprints.py).
"""
import ast
import os
import re
from harness.gen_tables import REPO

IP, SETS, GLOB, NMAP, EUI, E48, E64, STRAT = ("netaddr/ip/__init__.py", "netaddr/ip/sets.py", "netaddr/ip/glob.py", "netaddr/ip/nmap.py",
                                               "netaddr/eui/__init__.py", "netaddr/strategy/eui48.py", "netaddr/strategy/eui64.py",
                                               "netaddr/strategy/__init__.py")
V4, V6, FB, B85, IANA, IEEE, SPLIT, COMPAT, CORE = ("netaddr/strategy/ipv4.py", "netaddr/strategy/ipv6.py", "netaddr/fbsocket.py",
                                                     "netaddr/ip/rfc1924.py", "netaddr/ip/iana.py", "netaddr/eui/ieee.py",
                                                     "netaddr/contrib/subnet_splitter.py", "netaddr/compat.py", "netaddr/core.py")
ALL = "*"
_OBJ = ["BaseIP", "IPAddress", "IPNetwork", "IPListMixin", "parse_ip_network", "_arg_repr"]
# property -> {file: top-level names it relies on (ALL = every one)}; netaddr/compat.py is added for every property
RELEVANT = {
    "C01": {IP: ["BaseIP", "IPAddress", "_arg_repr"], V4: ALL, V6: ALL, FB: ALL, CORE: ALL},
    "C02": {IP: _OBJ, V4: ALL, V6: ALL},
    "C03": {IP: _OBJ + ["cidr_abbrev_to_verbose"], V4: ALL, V6: ALL},
    "C04": {IP: _OBJ + ["IPRange", "smallest_matching_cidr", "largest_matching_cidr", "all_matching_cidrs"], GLOB: ["IPGlob"]},
    "C05": {IP: _OBJ + ["IPRange", "cidr_merge", "iprange_to_cidrs", "spanning_cidr", "cidr_partition", "cidr_exclude", "iter_unique_ips"],
            GLOB: ALL},
    "C06": {SETS: ALL, IP: _OBJ + ["IPRange", "cidr_merge", "iprange_to_cidrs", "spanning_cidr", "cidr_partition", "cidr_exclude"]},
    "C07": {SETS: ALL, IP: _OBJ + ["IPRange", "cidr_merge", "iprange_to_cidrs", "spanning_cidr", "cidr_partition", "cidr_exclude"]},
    "C08": {EUI: ALL, E48: ALL, E64: ALL, STRAT: ALL, IP: ["BaseIP", "IPAddress", "_arg_repr"]},
    "C09": {IP: _OBJ + ["cidr_partition", "cidr_exclude"]},
    "C10": {IP: _OBJ + ["IPRange", "iter_iprange"], GLOB: ["IPGlob"]},
    "C11": {IP: _OBJ + ["iter_iprange", "cidr_abbrev_to_verbose"]},
    "C12": {IP: _OBJ + ["IPRange"], GLOB: ["IPGlob"], SETS: ["IPSet"], EUI: ALL},
    "C13": {IP: _OBJ + ["IPRange", "spanning_cidr", "iter_iprange"]},
    "C14": {IP: ["BaseIP", "IPAddress", "_arg_repr"]},
    "C15": {STRAT: ALL, V4: ALL, V6: ALL, E48: ALL, E64: ALL, B85: ALL, IP: ["BaseIP", "IPAddress", "_arg_repr"], EUI: ["BaseIdentifier", "EUI"]},
    "C16": {IP: _OBJ},
    "C17": {GLOB: ALL, NMAP: ALL, IP: _OBJ + ["IPRange", "iprange_to_cidrs", "spanning_cidr", "cidr_partition", "cidr_exclude", "iter_iprange"]},
    "C18": {IP: _OBJ + ["IPRange"], GLOB: ["IPGlob"]},
    "C19": {IANA: ALL, IEEE: ALL, EUI: ALL, CORE: ALL, IP: _OBJ + ["IPRange"]},
    "C20": {SPLIT: ALL, IP: _OBJ + ["cidr_merge", "cidr_partition", "cidr_exclude"]},
}
for _p in RELEVANT:
    RELEVANT[_p].setdefault(COMPAT, ALL)


def coq_str(s):
    s = "".join(c if 32 <= ord(c) < 127 else "?" for c in s)
    return '"' + s.replace('"', '""') + '"'


def mangle(rel, top=None):
    m = rel[len("netaddr/"):-3].replace("/", "_").replace("__init__", "init")
    return m if top is None else m + "__" + re.sub(r"[^A-Za-z0-9_]", "_", top)


def groups_of(path):
    """[(top-level name, rows)] in source order; a name bound by several top-level defs / classes (compat.py's try / except pairs)
    gives one group holding all of them"""
    tree = ast.parse(open(path, encoding="utf-8").read())
    groups = {}
    order = []

    def is_doc(st):
        return isinstance(st, ast.Expr) and isinstance(st.value, ast.Constant) and isinstance(st.value.value, str)

    def walk(node, q, rows):
        for ch in ast.iter_child_nodes(node):
            if isinstance(ch, (ast.FunctionDef, ast.AsyncFunctionDef, ast.ClassDef)):
                if not q:
                    if ch.name not in groups:
                        groups[ch.name] = []
                        order.append(ch.name)
                    rows_ = groups[ch.name]
                else:
                    rows_ = rows
                name = ".".join(q + [ch.name])
                deco = " ".join("@" + ast.unparse(d) for d in ch.decorator_list)
                if isinstance(ch, ast.ClassDef):
                    body = [ast.unparse(st).replace("\n", " ") for st in ch.body
                            if not isinstance(st, (ast.FunctionDef, ast.AsyncFunctionDef, ast.ClassDef)) and not is_doc(st)]
                    rows_.append(("class " + name, (deco + " " if deco else "") + "(" + ", ".join(ast.unparse(b) for b in ch.bases) + ") "
                                  + " ; ".join(body)))
                else:
                    rows_.append(("def " + name, (deco + " " if deco else "") + "(" + ast.unparse(ch.args) + ")"))
                walk(ch, q + [ch.name], rows_)
            else:
                walk(ch, q, rows)
    walk(tree, [], None)
    return [(t, groups[t]) for t in order]


def files():
    out = []
    for root, dirs, fs in os.walk(os.path.join(REPO, "netaddr")):
        dirs[:] = sorted(d for d in dirs if d != "tests")
        for f in sorted(fs):
            if f.endswith(".py"):
                out.append(os.path.relpath(os.path.join(root, f), REPO))
    return out


def literal(rows, indent="  "):
    return "[\n" + ";\n".join("%s(%s, %s)" % (indent, coq_str(a), coq_str(b)) for a, b in rows) + "\n]" if rows else "[]"


def relevant_groups(prop):
    """[(file, top)] of the groups property `prop` relies on, as they exist in the tree now"""
    out = []
    for rel, tops in sorted(RELEVANT.get(prop, {}).items()):
        path = os.path.join(REPO, rel)
        have = [t for t, _ in groups_of(path)] if os.path.exists(path) else []
        for t in (have if tops == ALL else tops):
            out.append((rel, t))
    return out


def generate():
    text = ("(* GENERATED by harness/gen/structure.py from every non-test source file of the working tree; do not edit.\n"
            "   Per file and top-level name: one row per function (parameter list as written, decorators) and per class (bases, non-def\n"
            "   statements of its body). *)\n"
            "From Coq Require Import List String.\nImport ListNotations.\nOpen Scope string_scope.\n\n")
    for rel in files():
        gs = groups_of(os.path.join(REPO, rel))
        text += "(* %s *)\n" % rel
        for top, rows in gs:
            text += "Definition gen_struct_%s : list (string * string) := %s.\n" % (mangle(rel, top), literal(rows))
        text += "Definition gen_names_%s : list string := [%s].\n\n" % (mangle(rel), "; ".join(coq_str(t) for t, _ in gs))
    return {"structure_gen.v": text}
