"""C19 — generated IANA tables: `coq/Gen/iana_gen.v`.

Two independent literals per run:

  iana_impl  the four `netaddr.ip.iana.IANA_INFO` dictionaries of the imported working tree, one row per key in
             dict order: (registry, record id, kind, version, x, y) with kind N (IPNetwork: x=_value, y=_prefixlen),
             G (IPRange: x=start, y=end) or A (IPAddress: x=y=value) -- exactly what `_within_bounds` looks at.
  iana_spec  an independent reading of the four shipped XML files with xml.etree.ElementTree (no SAX code, no
             netaddr), applying only the published semantics: (registry, record id, version, first, last).

Record ids: the k-th record (k = 0, 1, ...) of a registry that has block (first, last) is named
(registry, first, last, k); ids are the indices of these names in the sorted list of all names of both readings,
so the same record has the same id in both readings, two records with the same block have different ids (a
dictionary can hold only one of them: that would break `iana_lookup_exact`), and `iana_ids_coherent` re-checks in
Coq that equal ids mean equal (registry, version, first, last).

Fail closed: every row that cannot be interpreted raises.  The only skipped records are the multicast records without
an `addr` element (`MulticastParser.process_record` returns None for them: they are the "relative" offset records).
"""
import ipaddress
import os
import re
import xml.etree.ElementTree as ET

from harness import gen_tables

REG = {"IPv4": 0, "multicast": 1, "IPv6": 2, "IPv6_unicast": 3}
FILES = {
    "IPv4": "ipv4-address-space.xml",
    "IPv6": "ipv6-address-space.xml",
    "IPv6_unicast": "ipv6-unicast-address-assignments.xml",
    "multicast": "multicast-addresses.xml",
}
NS = "{http://www.iana.org/assignments}"

IMPL_SCRIPT = r"""
import json
from netaddr.ip import iana
from netaddr.ip import IPAddress, IPNetwork, IPRange
out = []
assert list(iana.IANA_INFO) == ['IPv4', 'IPv6', 'IPv6_unicast', 'multicast'], list(iana.IANA_INFO)
for reg in ('IPv4', 'multicast', 'IPv6', 'IPv6_unicast'):
    for k, rec in iana.IANA_INFO[reg].items():
        if type(k) is IPNetwork:
            row = ['N', k.version, k._value, k._prefixlen, k.first, k.last]
        elif type(k) is IPRange:
            row = ['G', k.version, k._start._value, k._end._value, k.first, k.last]
        elif type(k) is IPAddress:
            row = ['A', k.version, k._value, k._value, k._value, k._value]
        else:
            raise TypeError('unexpected key type %r in IANA_INFO[%r]' % (type(k), reg))
        assert all(type(i) is int for i in row[1:]), row
        out.append([reg] + row)
print(json.dumps(out))
"""


# ------------------------------------------------------------------ independent reading of the XML files

def quad(s):
    """dotted quad, decimal octets (leading zeros allowed, as published: 224.000.001.000)."""
    m = re.fullmatch(r"(\d{1,3})\.(\d{1,3})\.(\d{1,3})\.(\d{1,3})", s)
    if not m:
        raise ValueError("not a dotted quad: %r" % s)
    o = [int(g, 10) for g in m.groups()]
    if any(x > 255 for x in o):
        raise ValueError("octet out of range: %r" % s)
    return (o[0] << 24) | (o[1] << 16) | (o[2] << 8) | o[3]


def block4(first, plen, what):
    if not 0 <= plen <= 32:
        raise ValueError("bad prefix length in %r" % what)
    size = 1 << (32 - plen)
    if first % size:
        raise ValueError("prefix with host bits in %r" % what)
    return first, first + size - 1


def records(root):
    recs = list(root.iter(NS + "record"))
    for r in recs:
        if len(list(r.iter(NS + "record"))) != 1:
            raise ValueError("nested <record> elements")
    return recs


def child_text(rec, name):
    els = rec.findall(NS + name)
    if len(els) > 1:
        raise ValueError("record with %d <%s> elements" % (len(els), name))
    if not els:
        return None
    if len(els[0]):
        raise ValueError("<%s> with child elements" % name)
    return (els[0].text or "").strip()


def read_spec(repo=None):
    """-> (rows [(regname, ver, first, last)], skipped {regname: n}) in file order."""
    repo = repo or gen_tables.REPO
    rows, skipped = [], {}
    for reg in ("IPv4", "multicast", "IPv6", "IPv6_unicast"):
        root = ET.parse(os.path.join(repo, "netaddr", "ip", FILES[reg])).getroot()
        for rec in records(root):
            if reg == "IPv4":
                t = child_text(rec, "prefix")
                m = re.fullmatch(r"(\d{1,3})/8", t or "")
                if not m or int(m.group(1)) > 255:
                    raise ValueError("IPv4 address space prefix is not NNN/8: %r" % t)
                first, last = block4(int(m.group(1)) << 24, 8, t)
                rows.append((reg, 4, first, last))
            elif reg in ("IPv6", "IPv6_unicast"):
                t = child_text(rec, "prefix")
                if not t or "/" not in t:
                    raise ValueError("IPv6 prefix missing or without length: %r" % t)
                n = ipaddress.IPv6Network(t, strict=True)     # stdlib; raises on host bits / bad text
                rows.append((reg, 6, int(n.network_address), int(n.broadcast_address)))
            else:
                t = child_text(rec, "addr")
                if t is None:
                    skipped[reg] = skipped.get(reg, 0) + 1     # documented skip: no address, nothing to look up
                    continue
                if "-" in t:
                    a, b = t.split("-")
                    first, last = quad(a.strip()), quad(b.strip())
                    if first > last:
                        raise ValueError("descending range %r" % t)
                elif "/" in t:
                    a, p = t.split("/")
                    if not re.fullmatch(r"\d{1,2}", p):
                        raise ValueError("bad prefix %r" % t)
                    first, last = block4(quad(a.strip()), int(p), t)
                else:
                    first = last = quad(t)
                rows.append((reg, 4, first, last))
    return rows, skipped


def read_impl():
    return gen_tables.dump(IMPL_SCRIPT)


def name_rows(rows):
    """rows: [(regname, first, last)] in order -> names (regcode, first, last, k)."""
    seen = {}
    out = []
    for reg, first, last in rows:
        k = seen.get((reg, first, last), 0)
        seen[(reg, first, last)] = k + 1
        out.append((REG[reg], first, last, k))
    return out


def tables():
    impl = read_impl()
    spec, skipped = read_spec()
    impl_names = name_rows([(r[0], r[5], r[6]) for r in impl])
    spec_names = name_rows([(r[0], r[2], r[3]) for r in spec])
    ids = {n: i for i, n in enumerate(sorted(set(impl_names) | set(spec_names)))}
    impl_rows = [(REG[r[0]], ids[n], r[1], r[2], r[3], r[4]) for r, n in zip(impl, impl_names)]
    spec_rows = [(REG[r[0]], ids[n], r[1], r[2], r[3]) for r, n in zip(spec, spec_names)]
    return impl_rows, spec_rows, skipped


def generate():
    impl_rows, spec_rows, skipped = tables()
    z = gen_tables.zlit
    out = ["(* GENERATED by harness/gen/iana.py from the working tree; do not edit. *)",
           "From Coq Require Import ZArith List.",
           "From NV Require Import Model.Iana.",
           "Import ListNotations.",
           "Open Scope Z_scope.",
           "",
           "(* IANA_INFO of the imported working tree: registry, record id, key kind, version, x, y *)",
           "Definition iana_impl : list irow := ["]
    out.append(";\n".join("  IRow %s %s K%s %s %s %s" % (z(reg), z(rid), kind, z(ver), z(x), z(y))
                          for reg, rid, kind, ver, x, y in impl_rows))
    out.append("].")
    out.append("")
    out.append("(* independent etree reading of the shipped XML files: registry, record id, version, first, last;")
    out.append("   skipped (records without an address): %s *)" % (", ".join("%s=%d" % kv for kv in sorted(skipped.items())) or "none"))
    out.append("Definition iana_spec : list (Z * Z * Z * Z * Z) := [")
    out.append(";\n".join("  (%s, %s, %s, %s, %s)" % tuple(z(v) for v in row) for row in spec_rows))
    out.append("].")
    out.append("")
    return {"iana_gen.v": "\n".join(out)}
